// Second translation unit of the C20 library harness: the knob is also turned from here, so that state which the header
// keeps per translation unit (instead of per program) becomes visible in the call-sequence enumeration.
#include <cstddef>
#include <parmcb/config.hpp>
#include <parmcb/util.hpp>

// flatten: the header's inline function is expanded here, as it is in an optimised build of a user's program
__attribute__((flatten)) void knob_set_from_tu2(std::size_t n) { parmcb::set_global_tbb_concurrency(n); }
