#include <iostream>
// C08 harness (flavour I, metamorphic): the reported optimum is a function of the weighted graph alone.
//   mode small : every graph of G(n) x weighting; every image under a complete set of transformations; every exact
//                variant on every image must return the exactly known expected value (reference optimum of the base).
//   mode large : a fixed menu of large instances x weight patterns x renumberings / edge orders; all variants must agree,
//                every emitted basis is validated structurally (dynamic GF(2)), and where the Horton reference is
//                affordable the common value must equal that independent optimum.
//   mode xref  : cross-validates the Horton reference against the all-cycles reference on the small universe.
// Built twice: against the real oneTBB (sequential + TBB variants) and, with -DMETA_SHIM, against vmpi/vtbb (the five
// MPI entry points at P ranks and the TBB variants under the default schedule).
#include <memory>
#define VH_TBB 1
#include "common/runner.hpp"
#include "common/graphs.hpp"
#include "common/bigref.hpp"
#include "common/bgl.hpp"
#include "common/explore.hpp"
#include "common/variants.hpp"
#ifdef META_SHIM
#include <parmcb/mpi/parmcb.hpp>
#endif

enum Ctr { C_EVAL = 0, C_INPUTS, C_NONTRIV, C_IMAGES, C_XREF };
typedef double W;
typedef vb::Built<W> B;
typedef B::Edge Edge;

// variant ids: 0..5 = vv::Variant ; 10..14 = MPI entry points (META_SHIM only)
static const char *vname(int v) {
    static const char *mp[] = {"mcb_sva_signed_mpi", "mcb_sva_fvs_trees_mpi", "mcb_sva_fvs_trees_tbb_mpi", "mcb_sva_iso_trees_mpi", "mcb_sva_iso_trees_tbb_mpi"};
    return v >= 10 ? mp[v - 10] : vv::variant_name(v);
}
static int g_mpi_P = 2;

struct Out { double ret = 0; std::vector<std::vector<int>> cycles; std::string err; };

static Out run_variant(int var, const vg::EdgeList &el, const std::vector<double> &w, const std::vector<int> *order) {
    Out o;
    try {
        if (var < 10) {
            B b(el, w, order);
            vv::CycleList<W> cycles;
            o.ret = vv::run_exact<W>(var, b, cycles);
            for (auto &c : cycles) { std::vector<int> ids; for (auto &e : c) { auto it = b.by_prop.find(e.get_property()); ids.push_back(it == b.by_prop.end() ? -1 : it->second); } o.cycles.push_back(ids); }
        }
#ifdef META_SHIM
        else {
            int P = g_mpi_P;
            std::vector<std::unique_ptr<B>> gs(P); for (int r = 0; r < P; ++r) gs[r].reset(new B(el, w, order));
            std::vector<std::list<std::list<Edge>>> cyc(P); std::vector<double> ret(P, 0);
            boost::mpi::vmpi::World world(P);
            bool ok = boost::mpi::vmpi::run_ranks(world, [&](int r) {
                boost::mpi::communicator comm; auto wm = boost::get(boost::edge_weight, gs[r]->g); auto out = std::back_inserter(cyc[r]);
                switch (var - 10) {
                case 0: ret[r] = parmcb::mcb_sva_signed_mpi(gs[r]->g, wm, out, comm); break;
                case 1: ret[r] = parmcb::mcb_sva_fvs_trees_mpi(gs[r]->g, wm, out, comm); break;
                case 2: ret[r] = parmcb::mcb_sva_fvs_trees_tbb_mpi(gs[r]->g, wm, out, comm); break;
                case 3: ret[r] = parmcb::mcb_sva_iso_trees_mpi(gs[r]->g, wm, out, comm); break;
                case 4: ret[r] = parmcb::mcb_sva_iso_trees_tbb_mpi(gs[r]->g, wm, out, comm); break;
                }
            });
            if (!ok) { o.err = "deadlock: " + world.deadlock_desc; return o; }
            if (!world.rank_errors.empty()) { o.err = world.rank_errors[0]; return o; }
            o.ret = ret[0];
            for (auto &c : cyc[0]) { std::vector<int> ids; for (auto &e : c) { auto it = gs[0]->by_prop.find(e.get_property()); ids.push_back(it == gs[0]->by_prop.end() ? -1 : it->second); } o.cycles.push_back(ids); }
        }
#endif
    } catch (std::exception &e) { o.err = std::string("exception: ") + e.what(); }
    return o;
}

struct Image { vg::EdgeList el; std::vector<double> w; std::vector<int> order; bool has_order = false; std::string tag; double expected; };

static std::string cs_of(const Image &im, int var) {
    std::string extra = std::string("variant=") + vname(var) + ";image=" + im.tag;
    if (var >= 10) extra += ";P=" + std::to_string(g_mpi_P);
    if (im.has_order) { extra += ";order="; for (size_t i = 0; i < im.order.size(); ++i) extra += (i ? "." : "") + std::to_string(im.order[i]); }
    return vg::case_string(im.el, im.w, extra);
}

static void check_image(vr::Runner &R, const std::vector<int> &variants, const Image &im, bool validate, bool verbose = false) {
    int dim = vg::cycle_space_dim(im.el);
    for (int var : variants) {
        R.crumb_text(cs_of(im, var));
        Out o = run_variant(var, im.el, im.w, im.has_order ? &im.order : nullptr);
        R.crumb_done();
        R.count(C_EVAL);
        if (verbose) printf("%s -> %s %s\n", vname(var), vg::fmt_w(o.ret).c_str(), o.err.c_str());
        if (!o.err.empty()) { R.violation({vname(var), "exception", cs_of(im, var), o.err}); continue; }
        if (o.ret != im.expected) { R.violation({vname(var), "image-weight", cs_of(im, var), "reported " + vg::fmt_w(o.ret) + " on the image '" + im.tag + "', expected " + vg::fmt_w(im.expected)}); continue; }
        if (validate) { auto chk = vbig::check_cycles(im.el, im.w, o.cycles, dim); if (!chk.ok) R.violation({vname(var), chk.cls, cs_of(im, var), chk.msg}); else if (chk.total != o.ret) R.violation({vname(var), "return-mismatch", cs_of(im, var), "returned " + vg::fmt_w(o.ret) + ", cycles weigh " + vg::fmt_w(chk.total)}); }
    }
}

// ---------------------------------------------------------------- transformations of a small base graph
static void small_images(const vg::EdgeList &el, const std::vector<double> &w, double base, int perm_mode, int order_mode,
        const std::vector<std::pair<vg::EdgeList, std::pair<std::vector<double>, double>>> &unions, const std::function<void(const Image&)> &emit) {
    int n = el.n, m = el.m();
    auto mk = [&](const vg::EdgeList &g, const std::vector<double> &ww, const std::string &tag, double exp) { Image im; im.el = g; im.w = ww; im.tag = tag; im.expected = exp; return im; };
    emit(mk(el, w, "identity", base));
    // vertex renumberings
    { std::vector<int> p(n); std::iota(p.begin(), p.end(), 0);
      auto apply = [&](const std::vector<int> &pp, const std::string &tag) { vg::EdgeList g; g.n = n; for (auto &e : el.e) { int a = pp[e.first], b = pp[e.second]; g.e.push_back({std::min(a, b), std::max(a, b)}); } emit(mk(g, w, tag, base)); };
      if (perm_mode == 2) { while (std::next_permutation(p.begin(), p.end())) { std::string t = "renumber:"; for (int x : p) t += std::to_string(x); apply(p, t); } }
      else if (n >= 2) { std::vector<int> r(n); for (int i = 0; i < n; ++i) r[i] = n - 1 - i; apply(r, "renumber:reverse"); for (int i = 0; i < n; ++i) r[i] = (i + 1) % n; apply(r, "renumber:rotate"); } }
    // edge insertion orders
    if (m >= 2) { std::vector<int> o(m); std::iota(o.begin(), o.end(), 0);
      auto apply = [&](const std::vector<int> &oo, const std::string &tag) { Image im = mk(el, w, tag, base); im.order = oo; im.has_order = true; emit(im); };
      if (order_mode == 2 && m <= 5) { while (std::next_permutation(o.begin(), o.end())) apply(o, "edge-order:perm"); }
      else { std::vector<int> r(o.rbegin(), o.rend()); apply(r, "edge-order:reverse"); for (int k = 1; k < m; ++k) { std::vector<int> t(m); for (int i = 0; i < m; ++i) t[i] = (i + k) % m; apply(t, "edge-order:rotate" + std::to_string(k)); }
             if (order_mode == 2) for (int i = 0; i < m; ++i) for (int j = i + 1; j < m; ++j) { std::vector<int> t = o; std::swap(t[i], t[j]); apply(t, "edge-order:swap"); } } }
    // orientation in which the undirected edges are handed to add_edge
    for (int om : {1, 2}) { vg::EdgeList g = el; vg::orient(g, om); emit(mk(g, w, om == 1 ? "orient:all-reversed" : "orient:alternate", base)); }
    // isolated vertex, pendant paths, bridge to a new triangle
    { vg::EdgeList g = el; g.n++; emit(mk(g, w, "add-isolated-vertex", base)); }
    for (int v = 0; v < n; ++v) {
        { vg::EdgeList g = el; std::vector<double> ww = w; g.e.push_back({v, g.n}); g.n++; ww.push_back(2); emit(mk(g, ww, "pendant1@" + std::to_string(v), base)); }
        { vg::EdgeList g = el; std::vector<double> ww = w; g.e.push_back({v, g.n}); g.e.push_back({g.n, g.n + 1}); g.n += 2; ww.push_back(1); ww.push_back(3); emit(mk(g, ww, "pendant2@" + std::to_string(v), base)); }
        { vg::EdgeList g = el; std::vector<double> ww = w; int a = g.n; g.n += 3; g.e.push_back({v, a}); g.e.push_back({a, a + 1}); g.e.push_back({a + 1, a + 2}); g.e.push_back({a, a + 2}); ww.push_back(5); ww.push_back(1); ww.push_back(1); ww.push_back(1); emit(mk(g, ww, "bridge-to-triangle@" + std::to_string(v), base + 3)); }
    }
    // disjoint unions (additivity), both orders
    for (auto &u : unions) {
        { vg::EdgeList g = vg::disjoint_union(el, u.first); std::vector<double> ww = w; ww.insert(ww.end(), u.second.first.begin(), u.second.first.end()); emit(mk(g, ww, "union-right", base + u.second.second)); }
        { vg::EdgeList g = vg::disjoint_union(u.first, el); std::vector<double> ww = u.second.first; ww.insert(ww.end(), w.begin(), w.end()); emit(mk(g, ww, "union-left", base + u.second.second)); }
    }
    // subdivisions
    for (int i = 0; i < m; ++i) {
        auto sub = [&](double a, double b, const std::string &tag) { vg::EdgeList g = el; std::vector<double> ww = w; int x = g.n++; int u = g.e[i].first, v = g.e[i].second; g.e[i] = {std::min(u, x), std::max(u, x)}; ww[i] = a; g.e.push_back({std::min(x, v), std::max(x, v)}); ww.push_back(b); emit(mk(g, ww, tag, base)); };
        if (w[i] > 1) sub(1, w[i] - 1, "subdivide(1,w-1)#" + std::to_string(i));
        sub(w[i] / 2, w[i] / 2, "subdivide(w/2,w/2)#" + std::to_string(i));       // halves are dyadic, sums stay exact
    }
    // scaling by powers of two
    for (double f : {2.0, 4.0, 0.5}) { std::vector<double> ww = w; for (auto &x : ww) x *= f; emit(mk(el, ww, "scale x" + vg::fmt_w(f), base * f)); }
}

// ---------------------------------------------------------------- renumberings / edge orders for large instances
static std::vector<int> renumbering(int n, int kind) {
    std::vector<int> p(n);
    for (int i = 0; i < n; ++i) switch (kind) {
        case 0: p[i] = i; break;
        case 1: p[i] = n - 1 - i; break;
        case 2: p[i] = (i + n / 3) % n; break;
        case 3: p[i] = (i % 2 == 0) ? i / 2 : (n + 1) / 2 + i / 2; break;             // interleave: evens first
        case 4: p[i] = (int) (((uint64_t) i * 7919u + 13u) % (uint64_t) n); break;     // multiplicative shuffle (bijection when gcd(7919,n)=1, repaired below)
    }
    if (kind == 4) { std::vector<char> seen(n, 0); bool ok = true; for (int x : p) { if (seen[x]) ok = false; seen[x] = 1; } if (!ok) for (int i = 0; i < n; ++i) p[i] = (i * 2 < n) ? i * 2 : 2 * (i - (n + 1) / 2) + 1; }
    return p;
}
static const char *ren_name(int k) { static const char *n[] = {"identity", "reverse", "rotate", "interleave", "shuffle"}; return n[k]; }

int main(int argc, char **argv) {
    vr::Args A(argc, argv);
#ifdef PARMCB_LOGGING
    std::cout.setstate(std::ios_base::badbit);      // built against a config.hpp with PARMCB_LOGGING on: the library chats on std::cout (harness output uses stdio)
#endif
    vr::Runner R;
    R.nworkers = (int) A.geti("workers", 16);
    R.hang_limit_s = 900;
    if (A.has("deadline-s")) R.deadline_abs = vr::now_s() + A.getd("deadline-s", 0);
    std::string mode = A.get("mode", "small");
    g_mpi_P = (int) A.geti("P", 2);
    std::vector<int> variants;
#ifdef META_SHIM
    for (auto &s : vr::split(A.get("variants", "signed_mpi,fvs_mpi,fvs_tbb_mpi,iso_mpi,iso_tbb_mpi"), ',')) {
        static const char *sh[] = {"signed_mpi", "fvs_mpi", "fvs_tbb_mpi", "iso_mpi", "iso_tbb_mpi"};
        bool f = false; for (int i = 0; i < 5; ++i) if (s == sh[i]) { variants.push_back(10 + i); f = true; }
        if (!f) variants.push_back(vv::variant_by_short(s));
    }
#else
    variants = vv::parse_variants(A.get("variants", "signed,fvs,iso,signed_tbb,fvs_tbb,iso_tbb"));
#endif
    uint64_t seed = (uint64_t) A.geti("seed", 0);
    vv::wmap_kind() = (int) A.geti("wmap", 0);        // 1: exterior weight map, decoy values in the interior property

    if (A.has("replay-case")) {
        auto pc = vg::parse_case(A.get("replay-case"));
        Image im; im.el = pc.g; im.w = pc.w; im.tag = pc.get("image"); im.expected = atof(pc.get("expected", "-1").c_str());
        if (!pc.get("order").empty()) { for (auto &s : vr::split(pc.get("order"), '.')) im.order.push_back(atoi(s.c_str())); im.has_order = true; }
        if (!pc.get("P").empty()) g_mpi_P = atoi(pc.get("P").c_str());
        std::string vn = pc.get("variant"); int var = -1;
        for (int v = 0; v < 15; ++v) if ((v < 6 || v >= 10) && vn == vname(v)) var = v;
        // expected value is recomputed from an independent reference of the image itself
        int dim = vg::cycle_space_dim(im.el);
        if (im.el.m() <= 62) { auto cyc = vg::all_simple_cycles(im.el); im.expected = vg::reference_mcb<double>(cyc, im.w, dim).total; }
        else im.expected = vbig::horton_reference(im.el, im.w).total;
        R.worker_id = 0;
        printf("image '%s': independent optimum of the image = %s\n", im.tag.c_str(), vg::fmt_w(im.expected).c_str());
        check_image(R, {var}, im, true, true);
        if (R.vf) fclose(R.vf);
        uint64_t nv = R.sh->nviol.load(); std::string fn = R.viol_prefix + ".0";
        if (FILE *f = fopen(fn.c_str(), "r")) { char buf[8192]; while (fgets(buf, sizeof buf, f)) fputs(buf, stdout); fclose(f); unlink(fn.c_str()); }
        unlink(R.viol_prefix.c_str());
        printf(nv ? "REPLAY-VIOLATION\n" : "REPLAY-OK\n"); return nv ? 1 : 0;
    }

    std::vector<std::string> samples;
    uint64_t total_units = 0; vr::Runner::Work work;
    std::vector<double> alpha = vg::alphabet(A.get("alpha", "A2"));
    int n = (int) A.geti("n", 4);
    int perm_mode = A.get("perms", "all") == "all" ? 2 : 1, order_mode = A.get("orders", "all") == "all" ? 2 : 1;
    // G(3) x A2 for the additivity relation
    std::vector<std::pair<vg::EdgeList, std::pair<std::vector<double>, double>>> unions;
    if (A.get("unions", "all") != "none") {
        std::vector<double> a2 = {1, 2};
        for (uint64_t mask = 0; mask < vg::num_graphs(3); ++mask) { vg::EdgeList g = vg::graph_from_mask(3, mask); uint64_t nw = vg::ipow(2, g.m());
            for (uint64_t s = 0; s < nw; ++s) { std::vector<double> w; vg::weighting(a2, g.m(), s, w); auto cyc = vg::all_simple_cycles(g); double opt = vg::reference_mcb<double>(cyc, w, vg::cycle_space_dim(g)).total; unions.push_back({g, {w, opt}}); if (A.get("unions") == "few" && unions.size() >= 3) break; } }
    }
    struct Large { std::string fam, pat; int ren, ord; uint64_t widx; };
    std::vector<Large> larges;
    if (mode == "small" || mode == "xref") {
        total_units = vg::num_graphs(n);
        work = [&](uint64_t u, uint64_t start_sub) {
            vg::EdgeList el = vg::graph_from_mask(n, (u + seed) % total_units);
            int dim = vg::cycle_space_dim(el);
            auto cyc = vg::all_simple_cycles(el);
            uint64_t nw = vg::num_weightings(alpha, el.m());
            std::vector<double> w;
            for (uint64_t s = start_sub; s < nw; ++s) { if (R.expired()) break;
                vg::weighting(alpha, el.m(), s, w);
                R.sh->crumbs[R.worker_id].sub.store(s);
                double base = vg::reference_mcb<double>(cyc, w, dim).total;
                R.count(C_INPUTS); if (dim >= 1) R.count(C_NONTRIV);
                if (mode == "xref") {
                    auto h = vbig::horton_reference(el, w); R.count(C_XREF); R.count(C_EVAL);
                    auto full = vg::reference_mcb<double>(cyc, w, dim); std::sort(full.weights.begin(), full.weights.end());
                    if (h.total != base || h.weights != full.weights) R.violation({"horton_reference(harness)", "reference-disagreement", vg::case_string(el, w), "Horton reference " + vg::fmt_w(h.total) + " vs all-cycles reference " + vg::fmt_w(base)});
                    continue;
                }
                small_images(el, w, base, perm_mode, order_mode, unions, [&](const Image &im) { R.count(C_IMAGES); check_image(R, variants, im, false); });
            }
        };
        vg::EdgeList sg = vg::graph_from_mask(n, total_units - 1); std::vector<double> sw; vg::weighting(alpha, sg.m(), 1, sw);
        samples.push_back(vg::case_string(sg, sw, "image=subdivide(1,w-1)#0 / renumber:... / edge-order:... / union-left / scale x0.5 (all images of this base are generated)"));
    } else {
        for (auto &f : vr::split(A.get("families"), ',')) for (auto &p : vr::split(A.get("patterns", "U,M2,M3"), ','))
            for (uint64_t wi = 0; wi < vg::num_weightings(vg::alphabet(p), 1); ++wi)
            for (int ren : {0, 1, 2, 3, 4}) for (int ord : {0, 1, 2}) { if (A.has("few-images") && !((ren == 0 && ord == 0) || (ren == 1 && ord == 1) || (ren == 4 && ord == 2))) continue; larges.push_back({f, p, ren, ord, wi}); }
        total_units = larges.size();
        bool use_ref = !A.has("no-ref");
        uint64_t ref_limit = (uint64_t) A.geti("ref-limit", 400000);
        work = [&, use_ref, ref_limit](uint64_t u, uint64_t) {
            const Large &L = larges[(u + seed) % total_units];
            vg::EdgeList base = vg::family(L.fam);
            std::vector<double> alpha2 = vg::alphabet(L.pat), w; vg::weighting(alpha2, base.m(), L.widx, w);
            // image: renumber vertices, then permute insertion order
            std::vector<int> p = renumbering(base.n, L.ren);
            Image im; im.el.n = base.n; for (auto &e : base.e) { int a = p[e.first], b = p[e.second]; im.el.e.push_back({std::min(a, b), std::max(a, b)}); }
            im.w = w; im.tag = std::string("family=") + L.fam + ",weights=" + L.pat + "#" + std::to_string(L.widx) + ",renumber=" + ren_name(L.ren) + ",edge-order=" + (L.ord == 0 ? "identity" : L.ord == 1 ? "reverse" : "rotate");
            int m = base.m();
            vg::orient(im.el, (int) ((L.ren + L.ord) % 3));     // orientation pattern varies with the image
            if (L.ord) { im.has_order = true; im.order.resize(m); for (int i = 0; i < m; ++i) im.order[i] = L.ord == 1 ? m - 1 - i : (i + m / 3) % m; }
            R.count(C_INPUTS); R.count(C_NONTRIV); R.count(C_IMAGES);
            // expected value: independent Horton reference on the BASE graph when affordable, else the value the first variant reports on the identity image
            double expected = -1;
            if (use_ref && (uint64_t) base.n * (uint64_t) base.m() <= ref_limit) { expected = vbig::horton_reference(base, w).total; R.count(C_XREF); }
            if (expected < 0) { Image id; id.el = base; id.w = w; Out o = run_variant(variants[0], base, w, nullptr); expected = o.ret; }
            im.expected = expected;
            check_image(R, variants, im, true);
        };
        samples.push_back("family=" + larges[0].fam + ";weights=" + larges[0].pat + ";renumber=shuffle;edge-order=rotate;variants=all");
    }
    auto describe = [&](uint64_t u, uint64_t sub, uint64_t) {
        if (mode == "large") { const Large &L = larges[(u + seed) % total_units]; return std::make_pair(std::string("exact variants"), "family=" + L.fam + ";weights=" + L.pat + ";renumber=" + ren_name(L.ren) + ";edge-order=" + std::to_string(L.ord)); }
        vg::EdgeList el = vg::graph_from_mask(n, (u + seed) % total_units); std::vector<double> w; vg::weighting(alpha, el.m(), sub, w); return std::make_pair(std::string("exact variants"), vg::case_string(el, w)); };
    double t0 = vr::now_s();
    A.has("out"); A.require_all_used();
    auto res = R.run(total_units, work, describe);
    double wall = vr::now_s() - t0;
    FILE *o = A.has("out") ? fopen(A.get("out").c_str(), "w") : stdout;
    fprintf(o, "{\"harness\":\"meta\",\"evaluations\":%" PRIu64 ",\"inputs\":%" PRIu64 ",\"distinct_nontrivial\":%" PRIu64 ",\"images\":%" PRIu64 ",\"independent_reference_evaluations\":%" PRIu64
            ",\"units_total\":%" PRIu64 ",\"units_done\":%" PRIu64 ",\"capped\":%s,\"crashes\":%" PRIu64 ",\"hangs\":%" PRIu64 ",\"nviol\":%" PRIu64 ",\"wall_s\":%.3f,\n\"samples\":[",
            R.counter(C_EVAL), R.counter(C_INPUTS), mode == "small" ? R.counter(C_IMAGES) : R.counter(C_NONTRIV), R.counter(C_IMAGES), R.counter(C_XREF), res.units_total, res.units_done, res.capped ? "true" : "false", res.crashes, res.hangs, res.nviol, wall);
    for (size_t i = 0; i < samples.size(); ++i) fprintf(o, "%s\"%s\"", i ? "," : "", vr::json_escape(samples[i]).c_str());
    fprintf(o, "],\n\"violations\":[");
    for (size_t i = 0; i < res.violation_lines.size(); ++i) fprintf(o, "%s\n%s", i ? "," : "", res.violation_lines[i].c_str());
    fprintf(o, "]}\n");
    if (o != stdout) fclose(o);
    return 0;
}
