// Ownership of the one piece of nondeterminism that lives in the heap: parmcb orders edge descriptors by the ADDRESS of
// their property node (std::set<Edge>), so relative addresses of edge-list nodes decide tie-breaking.
//   * slab  : explicit placement of the m edge nodes of a graph the harness builds (per-rank layouts, C04)
//   * arena : while armed, every allocation of the edge-node size class is served from a bump arena that is rewound at
//             the start of each execution, so graphs the LIBRARY builds internally (the approximation algorithms'
//             spanner) get the same relative node order in every replay of the same choice sequence; the direction of
//             the arena (ascending / descending addresses) is an explorer ORDER choice.
// Include in exactly one translation unit of a harness: it replaces the global operator new/delete.
#pragma once
#include <cstddef>
#include <cstdint>
#include <cstdio>
#include <cstdlib>
#include <new>

namespace vptr {
    // slab
    static bool slab_armed = false;
    static std::size_t node_size = 0, served = 0, want = 0, stride = 0, other_allocs = 0;
    static char *slab_base = nullptr; static const int *perm = nullptr;
    static char *lo = nullptr, *hi = nullptr;           // union of all regions handed out by slab/arena (never individually freed)
    // arena
    static bool arena_armed = false, arena_down = false;
    static char *arena = nullptr; static std::size_t arena_cap = 0, arena_used = 0; static bool arena_exhausted = false;
    static uint64_t arena_served_total = 0;

    // one pool per process: [lo,hi) is exactly the pool, so operator delete can recognise (and ignore) our pointers
    static char *slab_pool = nullptr; static std::size_t slab_pool_cap = 0, slab_pool_used = 0;
    inline void init_pool() {
        if (lo) return;
        arena_cap = 48u << 20; slab_pool_cap = 16u << 20;
        lo = (char*) std::malloc(arena_cap + slab_pool_cap); hi = lo + arena_cap + slab_pool_cap;
        arena = lo; slab_pool = lo + arena_cap;
    }
    inline void slab_rewind() { init_pool(); slab_pool_used = 0; }      // call at the start of every execution
    inline char *slab_region(std::size_t bytes) {
        init_pool();
        if (slab_pool_used + bytes > slab_pool_cap) { fprintf(stderr, "HARNESS-ERROR slab pool exhausted\n"); exit(2); }
        char *p = slab_pool + slab_pool_used; slab_pool_used += (bytes + 15) / 16 * 16; return p;
    }
    static long arena_live = 0;      // arena objects not yet deleted; must be 0 whenever the arena is rewound
    inline void arena_begin(bool descending) {
        init_pool();
        if (arena_live != 0) {
            // something allocated during the previous execution is still alive: rewinding would corrupt it
            fprintf(stderr, "HARNESS-ERROR pointer-order arena: %ld object(s) of the edge-node size class allocated during the previous execution are still alive (harness object or library leak)\n", arena_live);
            exit(2);
        }
        arena_used = 0; arena_down = descending; arena_armed = true;
    }
    inline void arena_pause() { arena_armed = false; }
    inline void arena_resume() { arena_armed = true; }
    inline void arena_end() { arena_armed = false; }
}
static void *vptr_new(std::size_t sz) {
    using namespace vptr;
    if (slab_armed) {
        if (sz == node_size && served < want) { void *p = slab_base + stride * perm[served]; ++served; return p; }
        ++other_allocs;
    } else if (arena_armed && sz == node_size) {
        std::size_t st = (node_size + 15) / 16 * 16;
        if (arena_used + st <= arena_cap) { char *p = arena_down ? arena + arena_cap - arena_used - st : arena + arena_used; arena_used += st; ++arena_served_total; ++arena_live; return p; }
        arena_exhausted = true;
    }
    void *p = std::malloc(sz ? sz : 1);
    if (!p) throw std::bad_alloc();
    return p;
}
static inline bool vptr_ours(void *p) {
    if (!(vptr::lo && (char*) p >= vptr::lo && (char*) p < vptr::hi)) return false;
    if ((char*) p < vptr::arena + vptr::arena_cap) --vptr::arena_live;
    return true;
}
void *operator new(std::size_t sz) { return vptr_new(sz); }
void *operator new[](std::size_t sz) { return vptr_new(sz); }
void operator delete(void *p) noexcept { if (p && !vptr_ours(p)) std::free(p); }
void operator delete[](void *p) noexcept { if (p && !vptr_ours(p)) std::free(p); }
void operator delete(void *p, std::size_t) noexcept { if (p && !vptr_ours(p)) std::free(p); }
void operator delete[](void *p, std::size_t) noexcept { if (p && !vptr_ours(p)) std::free(p); }
