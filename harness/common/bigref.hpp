// References and validators for graphs that are too large for 64-bit edge masks / all-cycles enumeration.
// Independent of parmcb: own Dijkstra, own Horton candidate set, dynamic GF(2) elimination.
#pragma once
#include <algorithm>
#include <cstdint>
#include <functional>
#include <limits>
#include <numeric>
#include <queue>
#include <string>
#include <vector>
#include "graphs.hpp"

namespace vbig {

typedef std::vector<uint64_t> Bits;
inline void setbit(Bits &b, int i) { b[i >> 6] |= 1ull << (i & 63); }
inline bool getbit(const Bits &b, int i) { return b[i >> 6] >> (i & 63) & 1; }

// incremental GF(2) basis over m-bit vectors, rows kept reduced against earlier pivots
struct DynBasis {
    int m, words;
    std::vector<Bits> rows; std::vector<int> piv;
    explicit DynBasis(int m) : m(m), words((m + 63) / 64) {}
    bool add(Bits v) {
        for (size_t i = 0; i < rows.size(); ++i) if (getbit(v, piv[i])) for (int k = 0; k < words; ++k) v[k] ^= rows[i][k];
        int p = -1;
        for (int k = 0; k < words && p < 0; ++k) if (v[k]) p = k * 64 + __builtin_ctzll(v[k]);
        if (p < 0) return false;
        rows.push_back(std::move(v)); piv.push_back(p);
        return true;
    }
    size_t rank() const { return rows.size(); }
};

// structure + independence check of an emitted cycle set given as lists of edge positions
struct SetCheck { bool ok = true; std::string cls, msg; std::vector<double> weights; double total = 0; };
inline SetCheck check_cycles(const vg::EdgeList &g, const std::vector<double> &w, const std::vector<std::vector<int>> &cycles, int expected) {
    SetCheck r;
    int m = g.m(), words = (m + 63) / 64;
    auto fail = [&](const std::string &c, const std::string &t) { if (r.ok) { r.ok = false; r.cls = c; r.msg = t; } };
    DynBasis B(m);
    std::vector<int> deg(g.n, 0);
    int idx = 0;
    for (auto &cyc : cycles) {
        double cw = 0; Bits bits(words, 0); bool bad = false;
        if (cyc.empty()) { fail("empty-cycle", "cycle #" + std::to_string(idx) + " is empty"); bad = true; }
        std::vector<int> touched;
        for (int e : cyc) {
            if (e < 0 || e >= m) { fail("foreign-edge", "cycle #" + std::to_string(idx) + " contains a descriptor that is not an edge of the graph"); bad = true; break; }
            if (getbit(bits, e)) { fail("repeated-edge", "cycle #" + std::to_string(idx) + " repeats an edge"); bad = true; break; }
            setbit(bits, e); cw += w[e];
            deg[g.e[e].first]++; deg[g.e[e].second]++; touched.push_back(g.e[e].first); touched.push_back(g.e[e].second);
        }
        if (!bad) {
            for (int v : touched) if (deg[v] != 2) { fail("not-simple-cycle", "cycle #" + std::to_string(idx) + " has a vertex of degree " + std::to_string(deg[v])); bad = true; break; }
        }
        if (!bad) {
            // connected: walk from the first edge
            vg::UF uf(g.n); for (int e : cyc) uf.unite(g.e[e].first, g.e[e].second);
            int root = uf.find(g.e[cyc[0]].first);
            for (int e : cyc) if (uf.find(g.e[e].first) != root) { fail("not-simple-cycle", "cycle #" + std::to_string(idx) + " is a union of several cycles"); bad = true; break; }
        }
        for (int v : touched) deg[v] = 0;
        if (!bad && r.ok && !B.add(bits)) fail("dependent", "emitted cycles are linearly dependent over GF(2)");
        r.weights.push_back(cw); r.total += cw; ++idx;
    }
    if ((int) cycles.size() != expected) fail("wrong-count", "emitted " + std::to_string(cycles.size()) + " cycles, cycle space dimension is " + std::to_string(expected));
    return r;
}

// Second reference optimum: Horton collection from own Dijkstra trees (ties broken arbitrarily) + greedy GF(2).
// Exact on integer / dyadic weights. Returns total weight and sorted weight vector.
struct HortonRef { double total = 0; std::vector<double> weights; uint64_t candidates = 0; };
inline HortonRef horton_reference(const vg::EdgeList &g, const std::vector<double> &w) {
    int n = g.n, m = g.m(), words = (m + 63) / 64;
    int dim = vg::cycle_space_dim(g);
    std::vector<std::vector<std::pair<int, int>>> adj(n);
    for (int i = 0; i < m; ++i) { adj[g.e[i].first].push_back({g.e[i].second, i}); adj[g.e[i].second].push_back({g.e[i].first, i}); }
    struct Cand { double wt; int root, edge; };
    std::vector<Cand> cands;
    std::vector<std::vector<int>> pred(n, std::vector<int>(n, -1));      // pred[root][v] = edge to parent
    std::vector<std::vector<double>> dist(n);
    const double INF = std::numeric_limits<double>::infinity();
    for (int s = 0; s < n; ++s) {
        std::vector<double> &d = dist[s]; d.assign(n, INF); d[s] = 0;
        typedef std::pair<double, int> QE; std::priority_queue<QE, std::vector<QE>, std::greater<QE>> q; q.push({0, s});
        while (!q.empty()) { auto [du, u] = q.top(); q.pop(); if (du > d[u]) continue;
            for (auto &pr : adj[u]) { double nd = du + w[pr.second]; if (nd < d[pr.first]) { d[pr.first] = nd; pred[s][pr.first] = pr.second; q.push({nd, pr.first}); } } }
        for (int i = 0; i < m; ++i) {
            int x = g.e[i].first, y = g.e[i].second;
            if (d[x] == INF || d[y] == INF) continue;
            if (pred[s][x] == i || pred[s][y] == i) continue;
            cands.push_back({d[x] + d[y] + w[i], s, i});
        }
    }
    std::stable_sort(cands.begin(), cands.end(), [](const Cand &a, const Cand &b) { return a.wt < b.wt; });
    HortonRef r; r.candidates = cands.size();
    DynBasis B(m);
    for (auto &c : cands) {
        if ((int) B.rank() == dim) break;
        // unfold: edge + two tree paths; symmetric difference (shared prefix cancels); must be a simple cycle to count with weight wt
        Bits bits(words, 0); setbit(bits, c.edge);
        bool simple = true;
        for (int end : {g.e[c.edge].first, g.e[c.edge].second}) {
            int v = end;
            while (v != c.root) { int pe = pred[c.root][v]; if (getbit(bits, pe)) { simple = false; break; } setbit(bits, pe); v = g.e[pe].first == v ? g.e[pe].second : g.e[pe].first; }
            if (!simple) break;
        }
        if (!simple) continue;    // paths share an edge: not a circuit through the root (a lighter representative exists in the collection)
        if (B.add(bits)) { r.weights.push_back(c.wt); r.total += c.wt; }
    }
    std::sort(r.weights.begin(), r.weights.end());
    if ((int) B.rank() != dim) r.total = -1;   // cannot happen for a correct Horton collection
    return r;
}

} // namespace vbig
