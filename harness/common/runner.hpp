// Shared process-level machinery for all input-space / history-space harnesses.
//
//  * dynamic work queue over `total_units` units, pulled by N forked workers from a shared counter
//  * per-worker breadcrumb (unit, sub, variant) so that a worker that dies (signal, sanitizer abort,
//    uncaught exception) or hangs is attributed to the exact case it was running
//  * violations are appended by workers to per-worker files and merged by the parent
//  * counters live in shared memory
//  * a global deadline: when it passes, workers stop pulling units and the run is reported
//    exhaustive:false together with the number of units completed
//
// No parmcb code is included here.
#pragma once
#include <algorithm>
#include <atomic>
#include <chrono>
#include <cinttypes>
#include <csignal>
#include <cstdio>
#include <cstdlib>
#include <cstring>
#include <functional>
#include <map>
#include <set>
#include <sstream>
#include <string>
#include <vector>
#include <sys/mman.h>
#include <sys/types.h>
#include <sys/wait.h>
#include <unistd.h>

#if defined(__SANITIZE_ADDRESS__)
#include <sanitizer/lsan_interface.h>
#define VR_HAVE_LSAN 1
#endif

namespace vr {

inline double now_s() {
    using namespace std::chrono;
    return duration<double>(steady_clock::now().time_since_epoch()).count();
}

inline std::string json_escape(const std::string &s) {
    std::string o;
    for (unsigned char c : s) {
        switch (c) {
        case '"': o += "\\\""; break;
        case '\\': o += "\\\\"; break;
        case '\n': o += "\\n"; break;
        case '\t': o += "\\t"; break;
        case '\r': o += "\\r"; break;
        default:
            if (c < 0x20 || c >= 0x7f) { char b[8]; snprintf(b, sizeof b, "\\u%04x", c); o += b; }   // keeps the output valid UTF-8 even if memory was corrupted
            else o += (char) c;
        }
    }
    return o;
}

constexpr int MAX_WORKERS = 64;
constexpr int MAX_COUNTERS = 64;

struct Crumb {
    std::atomic<uint64_t> unit;
    std::atomic<uint64_t> sub;
    std::atomic<uint64_t> variant;
    std::atomic<uint64_t> beat;     // incremented per case; used by the hang monitor
    std::atomic<int> active;        // 1 while inside a case
    std::atomic<uint64_t> cases_in_proc;   // cases completed by the worker process that currently owns this slot
    char text[8192];                // optional free-form description of the current case (history harnesses)
};

struct Shared {
    std::atomic<uint64_t> next_unit;
    std::atomic<uint64_t> units_done;
    std::atomic<uint64_t> counters[MAX_COUNTERS];
    std::atomic<uint64_t> nviol;
    std::atomic<int> capped;
    Crumb crumbs[MAX_WORKERS];
};

struct Violation {
    std::string site;   // entry point / component
    std::string cls;    // failure class (stable token used by the known-findings matcher)
    std::string cs;     // case string (replayable)
    std::string msg;    // human readable
};

class Runner {
public:
    Shared *sh = nullptr;
    int worker_id = -1;          // -1 in parent
    int nworkers = 16;
    double deadline_abs = 0;     // absolute now_s() deadline; 0 = none
    double hang_limit_s = 120;
    uint64_t leak_check_every = 1;       // sanitizer builds: LeakSanitizer check after every n-th unit (0 = never)
    bool one_unit_per_process = false;   // each unit runs in a fresh process (for code with process-global state)
    std::string viol_prefix;     // per-worker violation files: <prefix>.<wid>
    uint64_t max_viol_per_worker = 200;
    uint64_t my_viol = 0;
    FILE *vf = nullptr;

    Runner() {
        void *p = mmap(nullptr, sizeof(Shared), PROT_READ | PROT_WRITE, MAP_SHARED | MAP_ANONYMOUS, -1, 0);
        if (p == MAP_FAILED) { perror("mmap"); exit(2); }
        sh = new (p) Shared();
        sh->next_unit = 0; sh->units_done = 0; sh->nviol = 0; sh->capped = 0;
        for (auto &c : sh->counters) c = 0;
        for (auto &c : sh->crumbs) { c.unit = 0; c.sub = 0; c.variant = 0; c.beat = 0; c.active = 0; c.text[0] = 0; }
        if (const char *le = getenv("VR_LEAK_EVERY")) leak_check_every = (uint64_t) atoll(le);
        char tmpl[] = "/dev/shm/vr_viol_XXXXXX";
        int fd = mkstemp(tmpl);
        if (fd >= 0) close(fd);
        viol_prefix = tmpl;
    }

    // deadline check usable inside long units (a dense graph with all its weightings): marks the run as capped
    bool expired() { if (deadline_abs > 0 && now_s() > deadline_abs) { sh->capped.store(1); return true; } return false; }
    void count(int idx, uint64_t by = 1) { sh->counters[idx].fetch_add(by, std::memory_order_relaxed); }
    uint64_t counter(int idx) const { return sh->counters[idx].load(); }

    // Called by harness code right before running one case.
    void crumb(uint64_t unit, uint64_t sub, uint64_t variant) {
        if (worker_id < 0) return;
        Crumb &c = sh->crumbs[worker_id];
        c.unit.store(unit, std::memory_order_relaxed);
        c.sub.store(sub, std::memory_order_relaxed);
        c.variant.store(variant, std::memory_order_relaxed);
        c.beat.fetch_add(1, std::memory_order_relaxed);
        c.active.store(1, std::memory_order_release);
    }
    // free-form crumb for harnesses whose cases are not addressable by (unit, sub, variant)
    void crumb_text(const std::string &t) {
        if (worker_id < 0) return;
        Crumb &c = sh->crumbs[worker_id];
        size_t n = std::min(t.size(), sizeof(c.text) - 1);
        memcpy(c.text, t.data(), n); c.text[n] = 0;
        c.beat.fetch_add(1, std::memory_order_relaxed);
        c.active.store(1, std::memory_order_release);
    }
    std::string crumb_text_of(int w) const { return std::string(sh->crumbs[w].text); }
    void crumb_done() {
        if (worker_id < 0) return;
        sh->crumbs[worker_id].cases_in_proc.fetch_add(1, std::memory_order_relaxed);
        sh->crumbs[worker_id].active.store(0, std::memory_order_release);
    }

    void violation(const Violation &v) {
        sh->nviol.fetch_add(1);
        if (my_viol++ >= max_viol_per_worker) return;
        if (!vf) {
            std::string fn = viol_prefix + "." + std::to_string(worker_id < 0 ? 999 : worker_id);
            vf = fopen(fn.c_str(), "a");
            if (!vf) return;
        }
        fprintf(vf, "{\"site\":\"%s\",\"class\":\"%s\",\"case\":\"%s\",\"msg\":\"%s\"}\n",
                json_escape(v.site).c_str(), json_escape(v.cls).c_str(), json_escape(v.cs).c_str(),
                json_escape(v.msg).c_str());
        fflush(vf);
    }

    // describe(unit, sub, variant) -> (site, case string): used to attribute crashes/hangs.
    using Describe = std::function<std::pair<std::string, std::string>(uint64_t, uint64_t, uint64_t)>;
    // work(unit, start_sub): run all cases of the unit starting at sub-index start_sub
    using Work = std::function<void(uint64_t, uint64_t)>;

    struct Result {
        uint64_t units_total = 0, units_done = 0;
        bool capped = false;
        uint64_t crashes = 0, hangs = 0;
        std::vector<std::string> violation_lines;  // JSON objects, one per line
        uint64_t nviol = 0;
    };

    Result run(uint64_t total_units, const Work &work, const Describe &describe) {
        Result res;
        res.units_total = total_units;
        sh->next_unit = 0; sh->units_done = 0;
        std::vector<pid_t> pids(nworkers, -1);
        std::vector<uint64_t> last_beat(nworkers, 0);
        std::vector<double> last_change(nworkers, now_s());
        // resume info for a replacement worker
        std::vector<char> crashed_before(nworkers, 0); std::vector<uint64_t> last_unit(nworkers, 0), last_sub(nworkers, 0);
        auto spawn = [&](int wid, bool resume, uint64_t unit, uint64_t sub) {
            fflush(nullptr);
            pid_t p = fork();
            if (p < 0) { perror("fork"); exit(2); }
            if (p == 0) {
                worker_id = wid;
                my_viol = 0;
                vf = nullptr;
                sh->crumbs[wid].cases_in_proc.store(0);
                if (resume) {
                    work(unit, sub);
                    sh->units_done.fetch_add(1);
                }
                while (true) {
                    if (deadline_abs > 0 && now_s() > deadline_abs) { sh->capped.store(1); break; }
                    uint64_t u = sh->next_unit.fetch_add(1);
                    if (u >= total_units) break;
                    work(u, 0);
                    sh->units_done.fetch_add(1);
#ifdef VR_HAVE_LSAN
                    // leak oracle (C07): everything the library allocated for this unit must be released by now
                    if (leak_check_every && (u % leak_check_every) == 0 && __lsan_do_recoverable_leak_check()) {
                        auto d = describe(sh->crumbs[worker_id].unit.load(), sh->crumbs[worker_id].sub.load(), sh->crumbs[worker_id].variant.load());
                        std::string cs = sh->crumbs[worker_id].text[0] ? std::string(sh->crumbs[worker_id].text) : d.second;
                        violation({d.first, "leak", cs, "LeakSanitizer reports memory that is no longer reachable after this unit (last case of the unit shown)"});
                        // LSan would report the same blocks again after every later unit: continue in a fresh process
                        if (vf) fclose(vf);
                        fflush(nullptr);
                        _exit(3);
                    }
#endif
                    if (one_unit_per_process) break;
                }
                if (vf) fclose(vf);
                fflush(nullptr);
                _exit(0);
            }
            pids[wid] = p;
            last_change[wid] = now_s();
        };
        for (int w = 0; w < nworkers; ++w) spawn(w, false, 0, 0);
        int alive = nworkers;
        while (alive > 0) {
            int status = 0;
            pid_t p = waitpid(-1, &status, WNOHANG);
            if (p == 0) {
                // hang monitor
                double t = now_s();
                for (int w = 0; w < nworkers; ++w) {
                    if (pids[w] < 0) continue;
                    uint64_t b = sh->crumbs[w].beat.load();
                    if (b != last_beat[w]) { last_beat[w] = b; last_change[w] = t; }
                    else if (sh->crumbs[w].active.load() && t - last_change[w] > hang_limit_s) {
                        kill(pids[w], SIGKILL);
                        // handled as abnormal termination below, flagged as hang
                        sh->crumbs[w].active.store(2);
                    }
                }
                usleep(20000);
                continue;
            }
            if (p < 0) break;
            int w = -1;
            for (int i = 0; i < nworkers; ++i) if (pids[i] == p) w = i;
            if (getenv("VR_DEBUG")) fprintf(stderr, "[runner] reaped pid %d slot %d status 0x%x alive %d\n", (int) p, w, status, alive);
            if (w < 0) continue;
            pids[w] = -1;
            bool normal = WIFEXITED(status) && WEXITSTATUS(status) == 0;
            if (WIFEXITED(status) && WEXITSTATUS(status) == 3) { spawn(w, false, 0, 0); continue; }   // worker asked to be replaced (after a leak report)
            if (normal) {
                if (one_unit_per_process && sh->next_unit.load() < total_units && !sh->capped.load()) { spawn(w, false, 0, 0); continue; }
                --alive; continue;
            }
            if (WIFEXITED(status) && WEXITSTATUS(status) == 2) {
                // exit 2 inside a worker is a HARNESS error (uncaptured nondeterminism, shim assumption broken, ...):
                // never a violation. Stop the run and propagate.
                fprintf(stderr, "HARNESS-ERROR worker %d reported a harness error while running: %s\n", w, sh->crumbs[w].text[0] ? sh->crumbs[w].text : "(see stderr above)");
                for (int i = 0; i < nworkers; ++i) if (pids[i] > 0) kill(pids[i], SIGKILL);
                while (waitpid(-1, nullptr, 0) > 0) {}
                exit(2);
            }
            // abnormal: attribute to breadcrumb
            Crumb &c = sh->crumbs[w];
            int act = c.active.load();
            if (!act && c.cases_in_proc.load() == 0) {
                // died before it ran any case: that is harness code (enumerator, set-up), never the library
                fprintf(stderr, "HARNESS-ERROR worker %d died outside a case (status 0x%x) before running any case\n", w, status);
                for (int i = 0; i < nworkers; ++i) if (pids[i] > 0) kill(pids[i], SIGKILL);
                while (waitpid(-1, nullptr, 0) > 0) {}
                exit(2);
            }
            // !act with completed cases: the process died between two cases (allocator abort, crash in a destructor or in
            // harness bookkeeping). The harness code that runs there is the same code that runs on the unchanged tree
            // without dying, so the cause is state left behind by an earlier case: reported against the last case
            // completed, class crash-after-case.
            uint64_t unit = c.unit.load(), sub = c.sub.load(), var = c.variant.load();
            auto d = describe(unit, sub, var);
            Violation v;
            v.site = d.first;
            v.cs = d.second;
            if (c.text[0]) v.cs = c.text;   // history harnesses describe the case themselves
            if (act == 2) { v.cls = "hang"; v.msg = "no progress for " + std::to_string((int) hang_limit_s) + " s; worker killed"; ++res.hangs; }
            else {
                v.cls = act ? "crash" : "crash-after-case";
                if (WIFEXITED(status) && WEXITSTATUS(status) == 66) v.cls = "data-race";        // TSAN_OPTIONS=exitcode=66
                if (WIFEXITED(status) && WEXITSTATUS(status) == 67) v.cls = "sanitizer-report";  // ASAN/UBSAN exitcode=67
                std::ostringstream os;
                if (WIFSIGNALED(status)) os << "worker died with signal " << WTERMSIG(status);
                else os << "worker exited with status " << WEXITSTATUS(status);
                if (!act) os << " (outside a case; last case shown)";
                v.msg = os.str();
                ++res.crashes;
            }
            int save = worker_id; worker_id = 900 + w; vf = nullptr; my_viol = 0;
            violation(v);
            if (vf) { fclose(vf); vf = nullptr; }
            worker_id = save;
            c.active.store(0);
            // replacement worker resumes the same unit after the failing sub-case - unless that made no progress last time
            // (a harness whose units are not resumable, or a unit that dies at once again and again): the unit is then
            // abandoned, which makes the run incomplete (capped), never silent
            bool stuck = crashed_before[w] && last_unit[w] == unit && sub <= last_sub[w];
            crashed_before[w] = true; last_unit[w] = unit; last_sub[w] = sub;
            if (res.crashes + res.hangs > 2000) { sh->capped.store(1); sh->next_unit.store(total_units); }   // a tree that crashes everywhere: stop exploring, report what was seen
            // harnesses that describe their cases by text have no (unit, sub) to resume from: the rest of that unit is skipped
            bool resumable = c.text[0] == 0;
            if (stuck) sh->capped.store(1);
            if (stuck || !resumable) { sh->units_done.fetch_add(1); spawn(w, false, 0, 0); }
            else spawn(w, true, unit, sub + 1);
        }
        res.units_done = sh->units_done.load();
        res.capped = sh->capped.load() != 0 || res.units_done < total_units;
        res.nviol = sh->nviol.load();
        // merge violation files
        for (int w = 0; w < 1000; ++w) {
            std::string fn = viol_prefix + "." + std::to_string(w);
            FILE *f = fopen(fn.c_str(), "r");
            if (!f) continue;
            char *line = nullptr; size_t cap = 0; ssize_t n;
            while ((n = getline(&line, &cap, f)) > 0) {
                while (n > 0 && (line[n - 1] == '\n')) line[--n] = 0;
                if (n > 0) res.violation_lines.push_back(line);
            }
            free(line);
            fclose(f);
            unlink(fn.c_str());
        }
        unlink(viol_prefix.c_str());
        return res;
    }
};

// ---- tiny argument parser: --key value / --flag ----
struct Args {
    std::map<std::string, std::string> kv;
    mutable std::set<std::string> used;     // options the harness has looked at
    // an option the harness never looked at would silently shrink or change the explored universe: harness error
    void require_all_used() const { for (auto &p : kv) if (!used.count(p.first) && p.first != "seed" /* only rotates enumeration order */) { fprintf(stderr, "harness error: option --%s is not understood by this harness\n", p.first.c_str()); exit(2); } }
    Args(int argc, char **argv) {
        for (int i = 1; i < argc; ++i) {
            std::string a = argv[i];
            if (a.rfind("--", 0) == 0) {
                std::string k = a.substr(2);
                if (i + 1 < argc && std::string(argv[i + 1]).rfind("--", 0) != 0) kv[k] = argv[++i];
                else kv[k] = "1";
            }
        }
    }
    bool has(const std::string &k) const { used.insert(k); return kv.count(k) > 0; }
    std::string get(const std::string &k, const std::string &d = "") const {
        used.insert(k);
        auto it = kv.find(k); return it == kv.end() ? d : it->second;
    }
    long geti(const std::string &k, long d) const { return has(k) ? atol(get(k).c_str()) : d; }
    double getd(const std::string &k, double d) const { return has(k) ? atof(get(k).c_str()) : d; }
};

inline std::vector<std::string> split(const std::string &s, char sep) {
    std::vector<std::string> out;
    std::string cur;
    for (char c : s) { if (c == sep) { out.push_back(cur); cur.clear(); } else cur += c; }
    out.push_back(cur);
    return out;
}

} // namespace vr
