// Choice-sequence explorer (stateless model checking with replay).
//
// choose(n, kind) is the only way a shim or harness obtains a nondeterministic value. An execution is the sequence
// of choices it made. The driver replays a prefix and takes choice 0 afterwards, then branches on every later
// choice point. OUTCOME choices (which of the distinct results of a completely enumerated sub-computation is
// returned) cost 0 and are always expanded; ORDER choices (split points, task order, push interleaving, heap
// layout, ...) cost 1 whenever they depart from the default 0 and are expanded up to a deviation bound.
// Replaying a prefix that meets a choice point of different arity or kind is a hard harness error (exit 2,
// "uncaptured nondeterminism"), never a violation.
#pragma once
#include <cstdio>
#include <cstdlib>
#include <functional>
#include <string>
#include <vector>

namespace vx {

enum Kind { OUTCOME = 0, ORDER = 1 };

struct Point { int arity; int kind; int chosen; };

struct Explorer {
    std::vector<int> prefix;        // choices to replay
    std::vector<Point> trace;       // choices actually made in the current execution
    std::vector<Point> expect;      // arities/kinds recorded when the prefix was first produced (for divergence detection)
    bool active = false;            // when false, choose() always returns 0 and records nothing (plain sequential semantics)
    bool strict = true;
    uint64_t choice_points = 0;

    int choose(int n, int kind) {
        if (n <= 1) return 0;
        if (!active) return 0;
        ++choice_points;
        size_t pos = trace.size();
        int c = 0;
        if (pos < prefix.size()) {
            c = prefix[pos];
            if (pos < expect.size() && (expect[pos].arity != n || expect[pos].kind != kind)) {
                fprintf(stderr, "HARNESS-ERROR uncaptured nondeterminism: choice point %zu had arity %d kind %d, now arity %d kind %d\n",
                        pos, expect[pos].arity, expect[pos].kind, n, kind);
                exit(2);
            }
            if (c >= n) { fprintf(stderr, "HARNESS-ERROR replayed choice %d out of range %d at point %zu\n", c, n, pos); exit(2); }
        }
        trace.push_back({n, kind, c});
        return c;
    }
    // trace is pre-reserved so that choose() never allocates (harnesses that own the heap layout rely on it)
    void begin(const std::vector<int> &pfx, const std::vector<Point> &exp) { prefix = pfx; expect = exp; trace.clear(); if (trace.capacity() < 65536) trace.reserve(65536); active = true; }
    void end() { active = false; }
    static std::string str(const std::vector<Point> &t) {
        std::string s;
        for (size_t i = 0; i < t.size(); ++i) { if (i) s += "."; s += std::to_string(t[i].chosen); }
        return s;
    }
};

inline Explorer &explorer() { static Explorer e; return e; }
inline int choose(int n, int kind) { return explorer().choose(n, kind); }

struct DfsStats { uint64_t executions = 0, choice_points = 0, max_trace = 0, pruned_by_bound = 0; int bound = 0; bool capped = false; };

// run(trace_out) executes one complete execution under the explorer and checks it; it may return false to stop the search.
// Explores all executions with at most `bound` deviations. max_exec caps the number of executions (reported as capped).
// outcome_bound: OUTCOME alternatives are free by default (all distinct results of a sub-enumeration are followed); for inputs
// whose outcome sets multiply (tie-heavy dense graphs under many ranks) a harness may bound the number of non-default
// outcomes per execution as well and must then report that bound.
// A harness may install a stop predicate (its global deadline): the search then ends between two executions and the
// input is reported as capped (never as exhaustively explored).
inline std::function<bool()> &stop_hook() { static std::function<bool()> f; return f; }

inline DfsStats dfs(const std::function<bool()> &run_one, int bound, uint64_t max_exec = UINT64_MAX, int outcome_bound = 1 << 30) {
    DfsStats st; st.bound = bound;
    struct Frame { std::vector<int> prefix; std::vector<Point> expect; };
    std::vector<Frame> stack;
    stack.push_back({{}, {}});
    Explorer &E = explorer();
    while (!stack.empty()) {
        Frame f = std::move(stack.back()); stack.pop_back();
        if (st.executions >= max_exec) { st.capped = true; break; }
        if (stop_hook() && (st.executions & 15) == 15 && stop_hook()()) { st.capped = true; break; }
        E.begin(f.prefix, f.expect);
        bool cont = run_one();
        E.end();
        ++st.executions;
        std::vector<Point> tr = E.trace;
        st.choice_points += tr.size();
        if (tr.size() > st.max_trace) st.max_trace = tr.size();
        if (!cont) break;
        // branch on every choice point after the prefix
        int dev = 0, odev = 0;
        for (size_t i = 0; i < tr.size(); ++i) {
            if (i >= f.prefix.size()) {
                int cost = dev + (tr[i].kind == ORDER ? 1 : 0);
                int ocost = odev + (tr[i].kind == OUTCOME ? 1 : 0);
                if (cost > bound || ocost > outcome_bound) { st.pruned_by_bound += tr[i].arity - 1; }
                else for (int alt = tr[i].arity - 1; alt >= 1; --alt) {
                    Frame nf;
                    nf.prefix.reserve(i + 1);
                    for (size_t k = 0; k < i; ++k) nf.prefix.push_back(tr[k].chosen);
                    nf.prefix.push_back(alt);
                    nf.expect.assign(tr.begin(), tr.begin() + i + 1);
                    stack.push_back(std::move(nf));
                }
            }
            if (tr[i].kind == ORDER && tr[i].chosen != 0) ++dev;
            if (tr[i].kind == OUTCOME && tr[i].chosen != 0) ++odev;
        }
    }
    return st;
}

} // namespace vx
