// Graph universe and the reference oracle. Independent of parmcb (no parmcb header, no Boost.Graph
// algorithm): plain edge lists, bitmasks, union-find, DFS cycle enumeration, GF(2) elimination.
#pragma once
#include <algorithm>
#include <array>
#include <cstdint>
#include <cstdio>
#include <cstdlib>
#include <functional>
#include <numeric>
#include <sstream>
#include <string>
#include <utility>
#include <vector>

namespace vg {

struct EdgeList {
    int n = 0;
    std::vector<std::pair<int, int>> e;   // insertion order
    int m() const { return (int) e.size(); }
};

// all vertex pairs of K_n in lexicographic order
inline std::vector<std::pair<int, int>> all_pairs(int n) {
    std::vector<std::pair<int, int>> p;
    for (int u = 0; u < n; ++u) for (int v = u + 1; v < n; ++v) p.push_back({u, v});
    return p;
}

// graph number `mask` of G(n): bit i set <=> i-th pair (lexicographic) is an edge
inline EdgeList graph_from_mask(int n, uint64_t mask) {
    EdgeList g; g.n = n;
    auto p = all_pairs(n);
    for (size_t i = 0; i < p.size(); ++i) if (mask >> i & 1) g.e.push_back(p[i]);
    return g;
}
inline uint64_t num_graphs(int n) { return 1ull << (n * (n - 1) / 2); }

// S(n, M): every labelled simple graph on n vertices with AT MOST M edges, ranked by (edge count, combination rank) -
// sparse graphs on more vertices than G(n) can afford (many components, isolated vertices, n > m + 2)
inline uint64_t binom(int a, int b) { if (b < 0 || b > a) return 0; uint64_t r = 1; for (int i = 1; i <= b; ++i) r = r * (uint64_t) (a - b + i) / (uint64_t) i; return r; }
inline uint64_t num_sparse_graphs(int n, int M) { int P = n * (n - 1) / 2; uint64_t t = 0; for (int k = 0; k <= M && k <= P; ++k) t += binom(P, k); return t; }
inline EdgeList sparse_graph(int n, int M, uint64_t idx) {
    int P = n * (n - 1) / 2, k = 0;
    while (k <= M && idx >= binom(P, k)) { idx -= binom(P, k); ++k; }
    EdgeList g; g.n = n; auto p = all_pairs(n);
    // unrank combination number idx of k out of P (lexicographic)
    int x = 0;
    for (int left = k; left > 0; --left) { while (binom(P - x - 1, left - 1) <= idx) { idx -= binom(P - x - 1, left - 1); ++x; } g.e.push_back(p[x]); ++x; }
    return g;
}

inline uint64_t ipow(uint64_t b, int e) { uint64_t r = 1; while (e-- > 0) r *= b; return r; }

inline uint64_t lcg_next(uint64_t &st) { st = st * 6364136223846793005ull + 1442695040888963407ull; return st >> 33; }

// ---- named families ----
inline EdgeList grid(int a, int b) {
    EdgeList g; g.n = a * b;
    for (int i = 0; i < a; ++i) for (int j = 0; j < b; ++j) {
        if (j + 1 < b) g.e.push_back({i * b + j, i * b + j + 1});
        if (i + 1 < a) g.e.push_back({i * b + j, (i + 1) * b + j});
    }
    return g;
}
inline EdgeList torus(int a, int b) {
    EdgeList g; g.n = a * b;
    for (int i = 0; i < a; ++i) for (int j = 0; j < b; ++j) {
        int r = i * b + (j + 1) % b, d = ((i + 1) % a) * b + j, me = i * b + j;
        if (b > 2 || j == 0) g.e.push_back({std::min(me, r), std::max(me, r)});
        if (a > 2 || i == 0) g.e.push_back({std::min(me, d), std::max(me, d)});
    }
    return g;
}
inline EdgeList hypercube(int d) {
    EdgeList g; g.n = 1 << d;
    for (int v = 0; v < g.n; ++v) for (int b = 0; b < d; ++b) if (!(v >> b & 1)) g.e.push_back({v, v | 1 << b});
    return g;
}
inline EdgeList complete(int n) { EdgeList g; g.n = n; g.e = all_pairs(n); return g; }
inline EdgeList complete_bipartite(int a, int b) {
    EdgeList g; g.n = a + b;
    for (int i = 0; i < a; ++i) for (int j = 0; j < b; ++j) g.e.push_back({i, a + j});
    return g;
}
inline EdgeList wheel(int k) {  // hub 0 + rim 1..k
    EdgeList g; g.n = k + 1;
    for (int i = 1; i <= k; ++i) { g.e.push_back({0, i}); int j = i % k + 1; g.e.push_back({std::min(i, j), std::max(i, j)}); }
    return g;
}
inline EdgeList prism(int k) {
    EdgeList g; g.n = 2 * k;
    for (int i = 0; i < k; ++i) {
        int j = (i + 1) % k;
        g.e.push_back({std::min(i, j), std::max(i, j)});
        g.e.push_back({k + std::min(i, j), k + std::max(i, j)});
        g.e.push_back({i, k + i});
    }
    return g;
}
inline EdgeList petersen() {
    EdgeList g; g.n = 10;
    for (int i = 0; i < 5; ++i) {
        int j = (i + 1) % 5; g.e.push_back({std::min(i, j), std::max(i, j)});
        g.e.push_back({i, 5 + i});
        int a = 5 + i, b = 5 + (i + 2) % 5; g.e.push_back({std::min(a, b), std::max(a, b)});
    }
    return g;
}
inline EdgeList cycle_graph(int k) {
    EdgeList g; g.n = k;
    for (int i = 0; i < k; ++i) { int j = (i + 1) % k; g.e.push_back({std::min(i, j), std::max(i, j)}); }
    return g;
}
// brick wall (hexagonal lattice patch): a x b grid with every other vertical edge removed -> all faces are hexagons
inline EdgeList brick(int a, int b) {
    EdgeList g; g.n = a * b;
    for (int i = 0; i < a; ++i) for (int j = 0; j < b; ++j) {
        if (j + 1 < b) g.e.push_back({i * b + j, i * b + j + 1});
        if (i + 1 < a && (i + j) % 2 == 0) g.e.push_back({i * b + j, (i + 1) * b + j});
    }
    return g;
}
// every edge of a graph subdivided once (even cycles only, many equal-length shortest paths with >= 3 edges)
inline EdgeList subdivided(const EdgeList &h) {
    EdgeList g; g.n = h.n;
    for (auto &e : h.e) { int x = g.n++; g.e.push_back({e.first, x}); g.e.push_back({e.second, x}); }
    return g;
}
inline EdgeList disjoint_union(const EdgeList &a, const EdgeList &b) {
    EdgeList g = a; g.n = a.n + b.n;
    for (auto &x : b.e) g.e.push_back({x.first + a.n, x.second + a.n});
    return g;
}

// vertices renumbered by the s-th permutation of a deterministic generator (s = 0: identity); edge insertion order is kept,
// so the adjacency order changes with the numbering too
inline EdgeList relabel(EdgeList g, int sd) {
    if (sd == 0) return g;
    std::vector<int> perm(g.n); for (int i = 0; i < g.n; ++i) perm[i] = i;
    uint64_t st = 0x51ed270b7f4a7c15ull ^ ((uint64_t) sd * 0x9e3779b97f4a7c15ull + (uint64_t) g.n); lcg_next(st);
    for (int i = g.n - 1; i > 0; --i) { int j = (int) (lcg_next(st) % (uint64_t) (i + 1)); std::swap(perm[i], perm[j]); }
    for (auto &e : g.e) { int a = perm[e.first], b = perm[e.second]; e = {std::min(a, b), std::max(a, b)}; }
    return g;
}

// named family by spec string: relab:s:<spec> antiprism:k mobius:k grid:a:b torus:a:b cube:d K:n Kp:n:p pK:n:p Kb:a:b wheel:k prism:k petersen cycle:k brick:a:b subgrid:a:b subcube:d
inline EdgeList family(const std::string &spec) {
    std::vector<std::string> t; { std::string c; for (char ch : spec) { if (ch == ':') { t.push_back(c); c.clear(); } else c += ch; } t.push_back(c); }
    auto I = [&](size_t i) { return i < t.size() ? atoi(t[i].c_str()) : 0; };
    if (t[0] == "relab") {   // relab:s:<family spec> - the family with its vertices renumbered by the s-th permutation of a deterministic
                             // generator (s = 0: identity); edge insertion order is kept, so adjacency order changes with the numbering too
        std::string rest = spec.substr(spec.find(':', 6) + 1);
        return relabel(family(rest), I(1));
    }
    if (t[0] == "antiprism") { EdgeList g; int k = I(1); g.n = 2 * k; for (int i = 0; i < 2 * k; ++i) for (int d = 1; d <= 2; ++d) { int j = (i + d) % (2 * k); g.e.push_back({std::min(i, j), std::max(i, j)}); } return g; }   // circulant C_2k(1,2)
    if (t[0] == "mobius") { EdgeList g; int k = I(1); g.n = 2 * k; for (int i = 0; i < 2 * k; ++i) { int j = (i + 1) % (2 * k); g.e.push_back({std::min(i, j), std::max(i, j)}); } for (int i = 0; i < k; ++i) g.e.push_back({i, i + k}); return g; }   // Moebius ladder M_2k
    if (t[0] == "hub") { EdgeList g; int D = I(1), c = I(2); g.n = D + 1; for (int i = 1; i <= D; ++i) g.e.push_back({0, i}); for (int i = 1; i <= c && i + 65536 <= D; ++i) g.e.push_back({i, i + 65536}); return g; }   // star with D leaves + c chords {i, i+65536}
    if (t[0] == "path") { EdgeList g; g.n = I(1); for (int i = 0; i + 1 < g.n; ++i) g.e.push_back({i, i + 1}); return g; }      // a single path (a forest): long chains of pendant removals
    if (t[0] == "tadpole") { EdgeList g; int c = I(1), l = I(2); g.n = c + l; for (int i = 0; i < c; ++i) { int j = (i + 1) % c; g.e.push_back({std::min(i, j), std::max(i, j)}); } for (int i = 0; i < l; ++i) g.e.push_back({i ? c + i - 1 : 0, c + i}); return g; }   // cycle of c vertices with a tail of l vertices
    if (t[0] == "grid") return grid(I(1), I(2));
    if (t[0] == "torus") return torus(I(1), I(2));
    if (t[0] == "cube") return hypercube(I(1));
    if (t[0] == "K") return complete(I(1));
    if (t[0] == "Kb") return complete_bipartite(I(1), I(2));
    if (t[0] == "Kp" || t[0] == "pK") {   // Kp:n:p - K_n with p pendant vertices numbered last (pK: numbered first); a dense core whose support
                                          // vectors grow past |V| entries, next to vertices that lie on no cycle at all
        int n = I(1), p = std::max(1, I(2)); EdgeList g; g.n = n + p; int off = t[0] == "pK" ? p : 0;
        for (int i = 0; i < n; ++i) for (int j = i + 1; j < n; ++j) g.e.push_back({off + i, off + j});
        for (int i = 0; i < p; ++i) { int pend = t[0] == "pK" ? i : n + i, at = off + (i % n); g.e.push_back({std::min(pend, at), std::max(pend, at)}); }
        return g;
    }
    if (t[0] == "wheel") return wheel(I(1));
    if (t[0] == "prism") return prism(I(1));
    if (t[0] == "petersen") return petersen();
    if (t[0] == "cycle") return cycle_graph(I(1));
    if (t[0] == "brick") return brick(I(1), I(2));
    if (t[0] == "thetac") {   // thetac:E:L - terminals 0 and 1 joined directly (edge #0) and by E disjoint paths of L edges; a chord from the
                              // first inner vertex of every path to terminal 1. Many non-tree edges whose closing paths compete for edge #0.
        EdgeList g; g.n = 2; int E = I(1), L = std::max(2, I(2));
        g.e.push_back({0, 1});
        for (int i = 0; i < E; ++i) { int prev = 0, first = -1; for (int j = 1; j < L; ++j) { int x = g.n++; if (first < 0) first = x; g.e.push_back({std::min(prev, x), std::max(prev, x)}); prev = x; } g.e.push_back({1, prev}); if (L >= 3) g.e.push_back({1, first}); }
        return g;
    }
    if (t[0] == "lcg") {   // lcg:n:m:seed - n vertices, m distinct pseudo-random edges (deterministic)
        EdgeList g; g.n = I(1); int m = std::min(I(2), g.n * (g.n - 1) / 2); uint64_t st = 0x243f6a8885a308d3ull ^ ((uint64_t) I(3) * 2654435761ull + (uint64_t) g.n * 97 + (uint64_t) m); lcg_next(st);
        std::vector<char> used((size_t) g.n * g.n, 0);
        while ((int) g.e.size() < m) { int a = (int) (lcg_next(st) % (uint64_t) g.n), b = (int) (lcg_next(st) % (uint64_t) g.n); if (a == b) continue; if (a > b) std::swap(a, b); if (used[(size_t) a * g.n + b]) continue; used[(size_t) a * g.n + b] = 1; g.e.push_back({a, b}); }
        return g;
    }
    if (t[0] == "subgrid") return subdivided(grid(I(1), I(2)));
    if (t[0] == "subcube") return subdivided(hypercube(I(1)));
    fprintf(stderr, "unknown family %s\n", spec.c_str()); exit(2);
}

// ---- "blob grammar": a finite, completely enumerable family of larger structured graphs ----
// A blob is a hub with a multiset of at most K attachments from the menu
//   0 leaf, 1 pendant path of 2, 2 triangle through the hub, 3 4-cycle through the hub, 4 triangle hanging on a bridge, 5 K4 through the hub
// or a bare cycle C_3..C_6. A graph of the family is a disjoint union of at most T blobs (as a multiset), optionally
// with the vertex numbering reversed. These graphs have up to ~30 vertices with pendant trees, repeated clean-up of
// low-degree vertices, many components and several cycles sharing a cut vertex - shapes that G(n<=7) cannot contain.
struct BlobUniverse {
    int K, T;
    std::vector<std::vector<int>> blobs;           // attachment multiset, or {-k} for a bare cycle C_k
    std::vector<std::array<int, 3>> unions;        // blob ids, -1 = unused slot
    BlobUniverse(int K, int T) : K(K), T(T) {
        std::vector<int> cur;
        std::function<void(int, int)> rec = [&](int from, int left) { blobs.push_back(cur); if (!left) return; for (int p = from; p < 6; ++p) { cur.push_back(p); rec(p, left - 1); cur.pop_back(); } };
        rec(0, K);
        for (int k = 3; k <= 6; ++k) blobs.push_back({-k});
        int B = (int) blobs.size();
        for (int a = 0; a < B; ++a) { unions.push_back({a, -1, -1}); if (T >= 2) for (int b = a; b < B; ++b) { unions.push_back({a, b, -1}); if (T >= 3) for (int c = b; c < B; ++c) unions.push_back({a, b, c}); } }
    }
    uint64_t size() const { return unions.size() * 2; }
    void add_blob(EdgeList &g, const std::vector<int> &bl) const {
        auto E = [&](int a, int b) { g.e.push_back({std::min(a, b), std::max(a, b)}); };
        if (!bl.empty() && bl[0] < 0) { int k = -bl[0], base = g.n; g.n += k; for (int i = 0; i < k; ++i) E(base + i, base + (i + 1) % k); return; }
        int h = g.n++;
        for (int p : bl) {
            int a = g.n;
            switch (p) {
            case 0: g.n += 1; E(h, a); break;
            case 1: g.n += 2; E(h, a); E(a, a + 1); break;
            case 2: g.n += 2; E(h, a); E(a, a + 1); E(a + 1, h); break;
            case 3: g.n += 3; E(h, a); E(a, a + 1); E(a + 1, a + 2); E(a + 2, h); break;
            case 4: g.n += 3; E(h, a); E(a, a + 1); E(a + 1, a + 2); E(a + 2, a); break;
            case 5: g.n += 3; E(h, a); E(h, a + 1); E(h, a + 2); E(a, a + 1); E(a, a + 2); E(a + 1, a + 2); break;
            }
        }
    }
    EdgeList build(uint64_t idx) const {
        bool rev = idx & 1; const auto &u = unions[idx >> 1];
        EdgeList g;
        for (int i = 0; i < 3; ++i) if (u[i] >= 0) add_blob(g, blobs[u[i]]);
        if (rev) for (auto &e : g.e) { int a = g.n - 1 - e.first, b = g.n - 1 - e.second; e = {std::min(a, b), std::max(a, b)}; }
        return g;
    }
};

// Orientation of the undirected edges as handed to add_edge (it decides boost::source / boost::target of every descriptor):
// 0 = as generated (low endpoint first), 1 = every edge reversed, 2 = every second edge reversed.
inline void orient(EdgeList &g, int mode) {
    if (mode == 0) return;
    for (size_t i = 0; i < g.e.size(); ++i) if (mode == 1 || (i & 1)) std::swap(g.e[i].first, g.e[i].second);
}

// Order in which the edges are handed to add_edge (it decides adjacency-list order, edge iteration order and the relative
// heap addresses of the edge nodes): 0 = as generated (lexicographic for G(n)), 1 = reversed, 2 = odd positions first, then even.
inline int &edge_order_mode() { static int m = 0; return m; }
inline void order_edges(EdgeList &g) {
    int mode = edge_order_mode();
    if (mode == 0) return;
    if (mode == 1) { std::reverse(g.e.begin(), g.e.end()); return; }
    std::vector<std::pair<int, int>> o; for (size_t i = 1; i < g.e.size(); i += 2) o.push_back(g.e[i]); for (size_t i = 0; i < g.e.size(); i += 2) o.push_back(g.e[i]);
    g.e = o;
}

// ---- union-find ----
struct UF {
    std::vector<int> p;
    explicit UF(int n) : p(n) { std::iota(p.begin(), p.end(), 0); }
    int find(int x) { while (p[x] != x) { p[x] = p[p[x]]; x = p[x]; } return x; }
    bool unite(int a, int b) { a = find(a); b = find(b); if (a == b) return false; p[a] = b; return true; }
};
inline int components(const EdgeList &g) {
    UF uf(g.n); int c = g.n;
    for (auto &e : g.e) if (uf.unite(e.first, e.second)) --c;
    return c;
}
inline int cycle_space_dim(const EdgeList &g) { return g.m() - g.n + components(g); }

// ---- all simple cycles as edge bitmasks (m <= 63) ----
inline std::vector<uint64_t> all_simple_cycles(const EdgeList &g) {
    std::vector<uint64_t> out;
    if (g.m() > 63) { fprintf(stderr, "HARNESS-ERROR all_simple_cycles called on a graph with %d > 63 edges\n", g.m()); exit(2); }
    int n = g.n;
    std::vector<std::vector<std::pair<int, int>>> adj(n);
    for (int i = 0; i < g.m(); ++i) { adj[g.e[i].first].push_back({g.e[i].second, i}); adj[g.e[i].second].push_back({g.e[i].first, i}); }
    std::vector<char> on(n, 0);
    std::vector<int> path;
    // cycles whose smallest vertex is s; each found once by requiring second vertex < last vertex
    for (int s = 0; s < n; ++s) {
        struct F { int v; size_t it; uint64_t mask; };
        std::vector<F> st;
        st.push_back({s, 0, 0}); on[s] = 1; path.assign(1, s);
        while (!st.empty()) {
            F &f = st.back();
            if (f.it == adj[f.v].size()) { on[f.v] = 0; path.pop_back(); st.pop_back(); continue; }
            auto [w, ei] = adj[f.v][f.it++];
            if (w < s) continue;
            if (w == s) {
                if (path.size() >= 3 && path[1] < path.back()) out.push_back(f.mask | 1ull << ei);
                continue;
            }
            if (on[w]) continue;
            on[w] = 1; path.push_back(w);
            uint64_t nm = f.mask | 1ull << ei;
            st.push_back({w, 0, nm});
        }
    }
    return out;
}

// GF(2) basis with insertion test
struct GF2Basis {
    std::vector<uint64_t> rows, piv;   // fully reduced: pivot bit of a row occurs in no other row
    bool add(uint64_t v) {
        for (size_t i = 0; i < rows.size(); ++i) if (v & piv[i]) v ^= rows[i];
        if (!v) return false;
        uint64_t p = v & (~v + 1);
        for (auto &r : rows) if (r & p) r ^= v;
        rows.push_back(v); piv.push_back(p);
        return true;
    }
    size_t rank() const { return rows.size(); }
};

// Reference minimum cycle basis weights: greedy over all simple cycles (matroid greedy).
// W: exact arithmetic type (double on dyadic/integer weights, or a rational type).
template<class W>
struct RefResult { std::vector<W> weights; W total; };

template<class W>
RefResult<W> reference_mcb(const std::vector<uint64_t> &cycles, const std::vector<W> &w, int dim,
        std::vector<uint64_t> *chosen = nullptr) {
    size_t nc = cycles.size();
    std::vector<W> cw(nc);
    for (size_t i = 0; i < nc; ++i) {
        W s = W();
        uint64_t c = cycles[i];
        while (c) { int b = __builtin_ctzll(c); c &= c - 1; s += w[b]; }
        cw[i] = s;
    }
    std::vector<uint32_t> ord(nc);
    std::iota(ord.begin(), ord.end(), 0);
    std::stable_sort(ord.begin(), ord.end(), [&](uint32_t a, uint32_t b) { return cw[a] < cw[b]; });
    GF2Basis B;
    RefResult<W> r; r.total = W();
    for (uint32_t i : ord) {
        if ((int) B.rank() == dim) break;
        if (B.add(cycles[i])) { r.weights.push_back(cw[i]); r.total += cw[i]; if (chosen) chosen->push_back(cycles[i]); }
    }
    return r;
}

// ---- weight alphabets ----
inline std::vector<double> alphabet(const std::string &name) {
    if (name == "U") return {1};
    if (name == "A2") return {1, 2};
    if (name == "A3") return {1, 2, 3};
    if (name == "B2") return {33554433, 33554434};               // 2^25 + {1,2}: 26 significant bits per weight, sums stay exact in double and int;
    if (name == "B3") return {33554433, 33554434, 33554435};     // competing cycles differ by a few units at magnitude 1e8 (below one float ulp)
    if (name == "D") return {0.25, 0.5, 0.75};
    if (name == "F") return {0.1, 0.2, 0.3};
    if (name == "F4") return {0.1, 0.2, 0.3, 0.7};
    if (name == "N3") return {0.001, 0.002, 0.002 + 4e-10};                  // near ties at the small end of [1e-3,1e3]: routes differ by 4e-10 absolute, i.e. 1e-7 relative -
    if (name == "N4") return {0.001, 0.002, 0.002 + 4e-10, 0.003 + 8e-10};   // a hundred times the property's tolerance and nine orders of magnitude above rounding error
    if (name == "M2") return {-2};      // deterministic pattern w_i = 1 + (i mod 2): one weighting per graph (for graphs too large for all weightings)
    if (name == "M3") return {-3};      // w_i = 1 + (i mod 3)
    // fixed menus of pseudo-random weightings: "R9x4" = 4 weightings per graph with weights 1..9 from a deterministic LCG.
    // A menu is a finite list enumerated completely on every run (a fixed corpus, not a sample drawn at run time).
    // "Q36x5": 5 weightings with dyadic weights (1..36)/4; "T97x5": decimal weights (1..97)/10 (not exactly summable: C09 only)
    if (name.size() >= 4 && (name[0] == 'Q' || name[0] == 'T') && name.find('x') != std::string::npos) { int k = atoi(name.c_str() + 1), cnt = atoi(name.c_str() + name.find('x') + 1); return {(name[0] == 'Q' ? -2000.0 : -3000.0) - k, (double) cnt}; }
    if (name.size() >= 4 && name[0] == 'R' && name.find('x') != std::string::npos) { int k = atoi(name.c_str() + 1), cnt = atoi(name.c_str() + name.find('x') + 1); return {-1000.0 - k, (double) cnt}; }
    if (name == "H3") return {1, 1000, 2000};
    if (name == "L3") return {1, 3, 1000};              // light / a little heavier / heavy
    if (name == "H4") return {1, 3, 1000, 2000};        // two light values (a chord heavier than the path around it), heavy, heavier
    if (name == "H5") return {1, 2, 3, 1000, 2000};           // light / heavy / heavier (amplified gadgets for the approximation bound)
    if (name == "H2") return {1, 100};                 // extreme ratio: adversarial for approximation guarantees
    if (name == "OH") return {-500};
    if (name == "A2H") return {-600};                  // edge #0 weighs 1000, every other edge ranges over {1,2}: 2^(m-1) weightings                   // "one heavy edge": m weightings, edge idx weighs 1000, the others 1 + (j mod 2)
    if (name == "PM") return {-700};                   // all m! assignments of the distinct weights 1..m (no ties between edges; sums may still tie)
    if (name == "PM2") return {-701};                  // all m! assignments of the weights 2^0..2^(m-1) (no two edge sets weigh the same: every optimum is unique)
    if (name == "P") return {1, 2, 4, 8, 16, 32, 64, 128, 256, 512, 1024, 2048, 4096, 8192, 16384, 32768, 65536, 131072, 262144, 524288, 1048576};
    fprintf(stderr, "unknown alphabet %s\n", name.c_str()); exit(2);
}

// "--plus-heavy-k2": every graph of the universe gets one more component, a single edge (two new vertices) that weighs 2^60.
// It lies on no cycle, so optimum and basis are unchanged, all path and cycle sums stay exactly representable (no path joins
// the components), but the input now spans 60 binary orders of magnitude: anything scaled by the heaviest edge shows.
inline bool &plus_heavy_k2() { static bool b = false; return b; }
constexpr double HEAVY_K2 = 1152921504606846976.0;
inline bool is_random_menu(const std::vector<double> &A) { return A.size() == 2 && A[0] <= -1000; }
inline double menu_scale(const std::vector<double> &A) { return A[0] <= -3000 ? 0.1 : A[0] <= -2000 ? 0.25 : 1.0; }
inline int menu_range(const std::vector<double> &A) { double a = -A[0]; return (int) (a >= 3000 ? a - 3000 : a >= 2000 ? a - 2000 : a - 1000); }
// number of weightings of an m-edge graph over alphabet A
inline uint64_t num_weightings(const std::vector<double> &A, int m) {
    if (plus_heavy_k2() && m >= 1) m -= 1;
    if (is_random_menu(A)) return (uint64_t) A[1];
    if (A.size() == 1 && A[0] == -500) return (uint64_t) std::max(m, 1);
    if (A.size() == 1 && (A[0] == -700 || A[0] == -701)) { uint64_t f = 1; for (int i = 2; i <= m; ++i) f *= (uint64_t) i; return f; }
    if (A.size() == 1 && A[0] == -600) return m >= 1 ? (1ull << (m - 1)) : 1;
    if (A.size() == 1 && A[0] < 0) return 1;
    return ipow(A.size(), m);
}
// weighting number `idx` (base |A|, edge 0 = least significant digit)
inline void weighting(const std::vector<double> &A, int m, uint64_t idx, std::vector<double> &w) {
    if (plus_heavy_k2() && m >= 1) { bool &f = plus_heavy_k2(); f = false; weighting(A, m - 1, idx, w); f = true; w.push_back(HEAVY_K2); return; }
    w.resize(m);
    if (is_random_menu(A)) { int k = menu_range(A); uint64_t st = 0x9e3779b97f4a7c15ull ^ (idx * 1000003ull + (uint64_t) m * 7919ull); lcg_next(st); for (int i = 0; i < m; ++i) { double v = 1 + (double) (lcg_next(st) % (uint64_t) k); w[i] = A[0] <= -3000 ? v / 10.0 : v * menu_scale(A); } return; }
    if (A.size() == 1 && A[0] == -600) { for (int i = 1; i < m; ++i) w[i] = 1 + ((idx >> (i - 1)) & 1); if (m > 0) w[0] = 1000; return; }
    if (A.size() == 1 && (A[0] == -700 || A[0] == -701)) {      // factoradic unranking of permutation number idx
        std::vector<int> pool(m); for (int i = 0; i < m; ++i) pool[i] = i;
        for (int i = 0; i < m; ++i) { uint64_t f = 1; for (int j = 2; j <= m - 1 - i; ++j) f *= (uint64_t) j; int d = (int) (idx / f); idx %= f; int v = pool[d]; pool.erase(pool.begin() + d); w[i] = A[0] == -700 ? (double) (v + 1) : (double) (1ull << v); }
        return;
    }
    if (A.size() == 1 && A[0] == -500) { for (int i = 0; i < m; ++i) w[i] = 1 + i % 2; if (m > 0) w[idx % (uint64_t) m] = 1000; return; }
    if (A.size() == 1 && A[0] < 0) { int k = (int) -A[0]; for (int i = 0; i < m; ++i) w[i] = 1 + i % k; return; }
    for (int i = 0; i < m; ++i) { w[i] = A[idx % A.size()]; idx /= A.size(); }
}

// ---- case strings ----
// "n=4;e=0-1:1,0-2:2;..." plus free-form key=value extras appended by the harness
inline std::string fmt_w(double w) {
    char b[64];
    if (w == (long long) w && w > -1e15 && w < 1e15) snprintf(b, sizeof b, "%lld", (long long) w);
    else snprintf(b, sizeof b, "%.17g", w);
    return b;
}
inline std::string case_string(const EdgeList &g, const std::vector<double> &w, const std::string &extra = "") {
    std::ostringstream os;
    os << "n=" << g.n << ";e=";
    for (int i = 0; i < g.m(); ++i) { if (i) os << ","; os << g.e[i].first << "-" << g.e[i].second << ":" << fmt_w(w[i]); }
    if (!extra.empty()) os << ";" << extra;
    return os.str();
}
struct ParsedCase {
    EdgeList g; std::vector<double> w;
    std::vector<std::pair<std::string, std::string>> kv;
    std::string get(const std::string &k, const std::string &d = "") const { for (auto &p : kv) if (p.first == k) return p.second; return d; }
};
inline ParsedCase parse_case(const std::string &s) {
    ParsedCase pc;
    std::vector<std::string> parts; { std::string c; for (char ch : s) { if (ch == ';') { parts.push_back(c); c.clear(); } else c += ch; } parts.push_back(c); }
    for (auto &p : parts) {
        auto eq = p.find('=');
        if (eq == std::string::npos) continue;
        std::string k = p.substr(0, eq), v = p.substr(eq + 1);
        if (k == "n") pc.g.n = atoi(v.c_str());
        else if (k == "e") {
            std::string c;
            auto flush = [&]() {
                if (c.empty()) return;
                int a, b; double w = 1; char buf[64] = {0};
                if (sscanf(c.c_str(), "%d-%d:%63s", &a, &b, buf) >= 2) { if (buf[0]) w = strtod(buf, nullptr); pc.g.e.push_back({a, b}); pc.w.push_back(w); }
                c.clear();
            };
            for (char ch : v) { if (ch == ',') flush(); else c += ch; }
            flush();
        } else pc.kv.push_back({k, v});
    }
    return pc;
}

} // namespace vg
