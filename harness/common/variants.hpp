// Registry of parmcb entry points under test. This is the only place where harnesses name the
// library's public functions, so every harness calls them exactly as a user would.
#pragma once
#include <parmcb/config.hpp>
#include <parmcb/parmcb_sva_signed.hpp>
#include <parmcb/parmcb_sva_trees.hpp>
#include <parmcb/parmcb_approx_sva_signed.hpp>
#include <parmcb/parmcb_approx_sva_trees.hpp>
#ifdef VH_TBB
#include <parmcb/parmcb_sva_signed_tbb.hpp>
#include <parmcb/parmcb_approx_sva_signed_tbb.hpp>
#include <parmcb/parmcb_approx_sva_trees_tbb.hpp>
#endif
#include <list>
#include <map>
#include <boost/property_map/property_map.hpp>
#include <boost/iterator/function_output_iterator.hpp>
#include <string>
#include <vector>
#include "bgl.hpp"

namespace vv {

enum Variant { SIGNED = 0, FVS, ISO, SIGNED_TBB, FVS_TBB, ISO_TBB, NVARIANTS };
inline const char *variant_name(int v) {
    static const char *n[] = {"mcb_sva_signed", "mcb_sva_fvs_trees", "mcb_sva_iso_trees", "mcb_sva_signed_tbb",
            "mcb_sva_fvs_trees_tbb", "mcb_sva_iso_trees_tbb"};
    return n[v];
}
inline const char *approx_name(int v) {
    static const char *n[] = {"approx_mcb_sva_signed", "approx_mcb_sva_fvs_trees", "approx_mcb_sva_iso_trees",
            "approx_mcb_sva_signed_tbb", "approx_mcb_sva_fvs_trees_tbb", "approx_mcb_sva_iso_trees_tbb"};
    return n[v];
}
inline int variant_by_short(const std::string &s) {
    if (s == "signed") return SIGNED;
    if (s == "fvs") return FVS;
    if (s == "iso") return ISO;
    if (s == "signed_tbb") return SIGNED_TBB;
    if (s == "fvs_tbb") return FVS_TBB;
    if (s == "iso_tbb") return ISO_TBB;
    for (int v = 0; v < NVARIANTS; ++v) if (s == variant_name(v) || s == approx_name(v)) return v;
    fprintf(stderr, "unknown variant %s\n", s.c_str()); exit(2);
}
inline std::vector<int> parse_variants(const std::string &csv) {
    std::vector<int> r; std::string c;
    for (char ch : csv + ",") { if (ch == ',') { if (!c.empty()) r.push_back(variant_by_short(c)); c.clear(); } else c += ch; }
    return r;
}

template<class W>
using CycleList = std::list<std::list<typename vb::Built<W>::Edge>>;

// Kind of output iterator the caller hands in: 0 = std::back_inserter into a list (what every test and demo of the
// repository uses), 1 = a POSITIONAL iterator into a pre-sized vector, 2 = boost::function_output_iterator over a callback that takes
// a const reference and copies (a sink that does not move from what it is assigned: `*out++ = std::move(x)` leaves x intact). The entry points take "an output iterator"; a
// positional one is advanced by copies of itself, so code that passes it by value to a helper and keeps using the original
// overwrites what the helper wrote. The buffer has slack behind the expected count; whatever lands there is reported too.
inline int &out_kind() { static int k = 0; return k; }

template<class W, class Call>
W run_with_output(vb::Built<W> &b, CycleList<W> &cycles, Call call) {
    if (out_kind() == 0) return call(std::back_inserter(cycles));
    if (out_kind() == 2) {      // a sink that COPIES what it is given (callback taking a const reference): the value handed over stays with the caller
        auto sink = [&cycles](const std::list<typename vb::Built<W>::Edge> &c) { cycles.push_back(c); };
        return call(boost::make_function_output_iterator(sink));
    }
    // expected number of cycles = m - n + c of the caller's graph
    std::size_t n = boost::num_vertices(b.g), m = boost::num_edges(b.g);
    std::vector<std::size_t> par(n); for (std::size_t i = 0; i < n; ++i) par[i] = i;
    auto find = [&](std::size_t x) { while (par[x] != x) { par[x] = par[par[x]]; x = par[x]; } return x; };
    std::size_t comps = n;
    for (auto &e : b.ends) { std::size_t a = find((std::size_t) e.first), c = find((std::size_t) e.second); if (a != c) { par[a] = c; --comps; } }
    std::size_t expected = m + comps - n;
    std::vector<std::list<typename vb::Built<W>::Edge>> buf(expected + 16);
    W ret = call(buf.begin());
    for (std::size_t i = 0; i < buf.size(); ++i) if (i < expected || !buf[i].empty()) cycles.push_back(buf[i]);
    return ret;
}

// Kind of weight map the caller hands in: 0 = the graph's interior edge_weight property (what every test and demo uses),
// 1 = an EXTERIOR map (associative_property_map over a std::map) while the interior property holds decoy values
// (the order of the true weights reversed). The entry points take "a weight map"; code that reads weights from the graph
// instead of the map it was given works only for kind 0. Exact entry points only (the approximate ones are documented to
// copy the interior property into their spanner and do not accept other maps).
inline int &wmap_kind() { static int k = 0; return k; }

template<class W, class WM>
W run_exact_with_map(int variant, vb::Built<W> &b, CycleList<W> &cycles, WM wm) {
    switch (variant) {
    case SIGNED: return run_with_output<W>(b, cycles, [&](auto out) { return parmcb::mcb_sva_signed(b.g, wm, out); });
    case FVS: return run_with_output<W>(b, cycles, [&](auto out) { return parmcb::mcb_sva_fvs_trees(b.g, wm, out); });
    case ISO: return run_with_output<W>(b, cycles, [&](auto out) { return parmcb::mcb_sva_iso_trees(b.g, wm, out); });
#ifdef VH_TBB
    case SIGNED_TBB: return run_with_output<W>(b, cycles, [&](auto out) { return parmcb::mcb_sva_signed_tbb(b.g, wm, out); });
    case FVS_TBB: return run_with_output<W>(b, cycles, [&](auto out) { return parmcb::mcb_sva_fvs_trees_tbb(b.g, wm, out); });
    case ISO_TBB: return run_with_output<W>(b, cycles, [&](auto out) { return parmcb::mcb_sva_iso_trees_tbb(b.g, wm, out); });
#endif
    }
    fprintf(stderr, "variant %d not compiled in\n", variant); exit(2);
}

template<class W>
W run_exact(int variant, vb::Built<W> &b, CycleList<W> &cycles) {
    auto interior = boost::get(boost::edge_weight, b.g);
    if (wmap_kind() == 0) return run_exact_with_map<W>(variant, b, cycles, interior);
    typedef typename vb::Built<W>::Edge Edge;
    std::map<Edge, W> ext;
    std::vector<W> truth(b.edges.size());
    W lo = W(), hi = W();
    for (std::size_t i = 0; i < b.edges.size(); ++i) { truth[i] = boost::get(interior, b.edges[i]); ext[b.edges[i]] = truth[i]; if (i == 0 || truth[i] < lo) lo = truth[i]; if (i == 0 || hi < truth[i]) hi = truth[i]; }
    for (std::size_t i = 0; i < b.edges.size(); ++i) boost::put(interior, b.edges[i], (W) (lo + hi - truth[i]));     // decoy: order reversed, same range
    W ret = W();
    try { ret = run_exact_with_map<W>(variant, b, cycles, boost::associative_property_map<std::map<Edge, W>>(ext)); }
    catch (...) { for (std::size_t i = 0; i < b.edges.size(); ++i) boost::put(interior, b.edges[i], truth[i]); throw; }
    for (std::size_t i = 0; i < b.edges.size(); ++i) boost::put(interior, b.edges[i], truth[i]);
    return ret;
}

template<class W>
W run_approx(int variant, vb::Built<W> &b, std::size_t k, CycleList<W> &cycles) {
    auto wm = boost::get(boost::edge_weight, b.g);
    switch (variant) {
    case SIGNED: return run_with_output<W>(b, cycles, [&](auto out) { return parmcb::approx_mcb_sva_signed(b.g, wm, k, out); });
    case FVS: return run_with_output<W>(b, cycles, [&](auto out) { return parmcb::approx_mcb_sva_fvs_trees(b.g, wm, k, out); });
    case ISO: return run_with_output<W>(b, cycles, [&](auto out) { return parmcb::approx_mcb_sva_iso_trees(b.g, wm, k, out); });
#ifdef VH_TBB
    case SIGNED_TBB: return run_with_output<W>(b, cycles, [&](auto out) { return parmcb::approx_mcb_sva_signed_tbb(b.g, wm, k, out); });
    case FVS_TBB: return run_with_output<W>(b, cycles, [&](auto out) { return parmcb::approx_mcb_sva_fvs_trees_tbb(b.g, wm, k, out); });
    case ISO_TBB: return run_with_output<W>(b, cycles, [&](auto out) { return parmcb::approx_mcb_sva_iso_trees_tbb(b.g, wm, k, out); });
#endif
    }
    fprintf(stderr, "variant %d not compiled in\n", variant); exit(2);
}

} // namespace vv
