// Registry of parmcb entry points under test. This is the only place where harnesses name the
// library's public functions, so every harness calls them exactly as a user would.
#pragma once
#include <parmcb/config.hpp>
#include <parmcb/parmcb_sva_signed.hpp>
#include <parmcb/parmcb_sva_trees.hpp>
#include <parmcb/parmcb_approx_sva_signed.hpp>
#include <parmcb/parmcb_approx_sva_trees.hpp>
#ifdef VH_TBB
#include <parmcb/parmcb_sva_signed_tbb.hpp>
#include <parmcb/parmcb_approx_sva_signed_tbb.hpp>
#include <parmcb/parmcb_approx_sva_trees_tbb.hpp>
#endif
#include <list>
#include <string>
#include <vector>
#include "bgl.hpp"

namespace vv {

enum Variant { SIGNED = 0, FVS, ISO, SIGNED_TBB, FVS_TBB, ISO_TBB, NVARIANTS };
inline const char *variant_name(int v) {
    static const char *n[] = {"mcb_sva_signed", "mcb_sva_fvs_trees", "mcb_sva_iso_trees", "mcb_sva_signed_tbb",
            "mcb_sva_fvs_trees_tbb", "mcb_sva_iso_trees_tbb"};
    return n[v];
}
inline const char *approx_name(int v) {
    static const char *n[] = {"approx_mcb_sva_signed", "approx_mcb_sva_fvs_trees", "approx_mcb_sva_iso_trees",
            "approx_mcb_sva_signed_tbb", "approx_mcb_sva_fvs_trees_tbb", "approx_mcb_sva_iso_trees_tbb"};
    return n[v];
}
inline int variant_by_short(const std::string &s) {
    if (s == "signed") return SIGNED;
    if (s == "fvs") return FVS;
    if (s == "iso") return ISO;
    if (s == "signed_tbb") return SIGNED_TBB;
    if (s == "fvs_tbb") return FVS_TBB;
    if (s == "iso_tbb") return ISO_TBB;
    for (int v = 0; v < NVARIANTS; ++v) if (s == variant_name(v) || s == approx_name(v)) return v;
    fprintf(stderr, "unknown variant %s\n", s.c_str()); exit(2);
}
inline std::vector<int> parse_variants(const std::string &csv) {
    std::vector<int> r; std::string c;
    for (char ch : csv + ",") { if (ch == ',') { if (!c.empty()) r.push_back(variant_by_short(c)); c.clear(); } else c += ch; }
    return r;
}

template<class W>
using CycleList = std::list<std::list<typename vb::Built<W>::Edge>>;

template<class W>
W run_exact(int variant, vb::Built<W> &b, CycleList<W> &cycles) {
    auto wm = boost::get(boost::edge_weight, b.g);
    auto out = std::back_inserter(cycles);
    switch (variant) {
    case SIGNED: return parmcb::mcb_sva_signed(b.g, wm, out);
    case FVS: return parmcb::mcb_sva_fvs_trees(b.g, wm, out);
    case ISO: return parmcb::mcb_sva_iso_trees(b.g, wm, out);
#ifdef VH_TBB
    case SIGNED_TBB: return parmcb::mcb_sva_signed_tbb(b.g, wm, out);
    case FVS_TBB: return parmcb::mcb_sva_fvs_trees_tbb(b.g, wm, out);
    case ISO_TBB: return parmcb::mcb_sva_iso_trees_tbb(b.g, wm, out);
#endif
    }
    fprintf(stderr, "variant %d not compiled in\n", variant); exit(2);
}

template<class W>
W run_approx(int variant, vb::Built<W> &b, std::size_t k, CycleList<W> &cycles) {
    auto wm = boost::get(boost::edge_weight, b.g);
    auto out = std::back_inserter(cycles);
    switch (variant) {
    case SIGNED: return parmcb::approx_mcb_sva_signed(b.g, wm, k, out);
    case FVS: return parmcb::approx_mcb_sva_fvs_trees(b.g, wm, k, out);
    case ISO: return parmcb::approx_mcb_sva_iso_trees(b.g, wm, k, out);
#ifdef VH_TBB
    case SIGNED_TBB: return parmcb::approx_mcb_sva_signed_tbb(b.g, wm, k, out);
    case FVS_TBB: return parmcb::approx_mcb_sva_fvs_trees_tbb(b.g, wm, k, out);
    case ISO_TBB: return parmcb::approx_mcb_sva_iso_trees_tbb(b.g, wm, k, out);
#endif
    }
    fprintf(stderr, "variant %d not compiled in\n", variant); exit(2);
}

} // namespace vv
