// Binding between the plain EdgeList universe and the Boost graphs parmcb works on, plus the
// validator for emitted cycle sets (C01/C02/C05 oracles). Uses only Boost.Graph data structures
// (add_vertex/add_edge/edges/source/target), no algorithm from Boost.Graph or parmcb.
#pragma once
#include <boost/graph/adjacency_list.hpp>
#include <boost/property_map/property_map.hpp>
#include <functional>
#include <list>
#include <map>
#include <string>
#include <sstream>
#include <unordered_map>
#include "graphs.hpp"

namespace vb {

#ifdef VH_GRAPH_ALT
// -DVH_GRAPH_ALT: another legal graph type for the same harness - vertex property present, edge_weight NOT the first edge
// property (an edge_index in front of it). The entry points are templates over the graph type.
template<class W>
using GraphT = boost::adjacency_list<boost::vecS, boost::vecS, boost::undirectedS, boost::property<boost::vertex_name_t, int>,
        boost::property<boost::edge_index_t, std::size_t, boost::property<boost::edge_weight_t, W>>>;
#else
template<class W>
using GraphT = boost::adjacency_list<boost::vecS, boost::vecS, boost::undirectedS, boost::no_property,
        boost::property<boost::edge_weight_t, W>>;
#endif

// Optional hooks around the add_edge loop of Built (used by the MPI harness to control the heap layout, i.e. the
// pointer order, of the edge property nodes). Out-edge vectors are reserved beforehand, so the edge-list nodes are the
// only allocations made between the two hooks.
inline std::function<void(int)> &edge_alloc_begin() { static std::function<void(int)> f; return f; }
inline std::function<void()> &edge_alloc_end() { static std::function<void()> f; return f; }

template<class W>
struct Built {
    typedef GraphT<W> Graph;
    typedef typename boost::graph_traits<Graph>::edge_descriptor Edge;
    Graph g;
    std::vector<Edge> edges;                         // by EdgeList position
    std::unordered_map<const void*, int> by_prop;    // property address -> EdgeList position
    std::vector<std::pair<int, int>> ends;

    // `order`: optional insertion order (permutation of EdgeList positions); edges[] stays indexed by position
    Built(const vg::EdgeList &el, const std::vector<double> &w, const std::vector<int> *order = nullptr) : g(el.n) {
        edges.resize(el.m());
        ends = el.e;
        {
            std::vector<int> deg(el.n, 0);
            for (auto &e : el.e) { deg[e.first]++; deg[e.second]++; }
            for (int v = 0; v < el.n; ++v) g.out_edge_list(v).reserve(deg[v]);
        }
        if (edge_alloc_begin()) edge_alloc_begin()(el.m());
        for (int k = 0; k < el.m(); ++k) {
            int i = order ? (*order)[k] : k;
            auto r = boost::add_edge(el.e[i].first, el.e[i].second, g);
            boost::put(boost::edge_weight, g, r.first, (W) w[i]);      // through the map: the weight need not be the first edge property
            edges[i] = r.first;
        }
        if (edge_alloc_end()) edge_alloc_end()();
        // descriptors stay valid for vecS out-edge lists? The edge property lives in a std::list node,
        // so its address is stable; re-read descriptors from the final graph to be safe.
        typename boost::graph_traits<Graph>::edge_iterator ei, ee;
        std::map<std::pair<int,int>, int> pos;
        for (int i = 0; i < el.m(); ++i) pos[{std::min(el.e[i].first, el.e[i].second), std::max(el.e[i].first, el.e[i].second)}] = i;
        for (boost::tie(ei, ee) = boost::edges(g); ei != ee; ++ei) {
            int a = (int) boost::source(*ei, g), b = (int) boost::target(*ei, g);
            int i = pos.at({std::min(a, b), std::max(a, b)});
            edges[i] = *ei;
            by_prop[ei->get_property()] = i;
        }
    }
    void set_weights(const std::vector<double> &w) {
        auto wm = boost::get(boost::edge_weight, g);
        for (size_t i = 0; i < edges.size(); ++i) boost::put(wm, edges[i], (W) w[i]);
    }
};

// Result of validating a set of emitted cycles against the caller's graph.
struct CycleSetCheck {
    bool ok = true;
    std::string cls, msg;
    std::vector<uint64_t> masks;
    std::vector<double> weights;   // per cycle, exact on dyadic inputs
    double total = 0;
    bool identifiable = true;      // every listed descriptor is an edge of the caller's graph
    std::vector<double> listed_weights;   // per emitted list: sum of caller weights over listed edges (with repetitions), valid if identifiable
    double listed_total = 0;
    void fail(const std::string &c, const std::string &m) { if (ok) { ok = false; cls = c; msg = m; } }
};

// cycles: container of containers of edge descriptors. w: caller's weights by EdgeList position.
template<class W, class Cycles>
CycleSetCheck check_cycle_set(const Built<W> &b, const std::vector<double> &w, const Cycles &cycles, int expected_count) {
    CycleSetCheck r;
    int n = (int) boost::num_vertices(b.g);
    int cnt = 0;
    for (auto &cyc : cycles) {
        ++cnt;
#ifdef VH_TOUCH_RESULTS
        // what a caller does with the result: read each returned descriptor's weight through its own property map.
        // Under AddressSanitizer a descriptor that points into storage the library already released is reported here.
        { auto wm = boost::get(boost::edge_weight, b.g); volatile double sink = 0; for (auto &e : cyc) sink = sink + (double) boost::get(wm, e); (void) sink; }
#endif
        { double lw = 0; for (auto &e : cyc) { auto it = b.by_prop.find(e.get_property()); if (it == b.by_prop.end()) { r.identifiable = false; break; } lw += w[it->second]; } r.listed_weights.push_back(lw); r.listed_total += lw; }
        uint64_t mask = 0; double cw = 0;
        std::vector<int> deg(n, 0);
        std::vector<int> ids;
        if (cyc.begin() == cyc.end()) { r.fail("empty-cycle", "cycle #" + std::to_string(cnt - 1) + " is empty"); r.masks.push_back(0); r.weights.push_back(0); continue; }
        bool bad = false;
        for (auto &e : cyc) {
            auto it = b.by_prop.find(e.get_property());
            if (it == b.by_prop.end()) { r.fail("foreign-edge", "cycle #" + std::to_string(cnt - 1) + " contains an edge descriptor that is not an edge of the caller's graph"); bad = true; break; }
            int i = it->second;
            int s = (int) e.m_source, t = (int) e.m_target;
            if (!((s == b.ends[i].first && t == b.ends[i].second) || (s == b.ends[i].second && t == b.ends[i].first))) {
                r.fail("foreign-edge", "cycle #" + std::to_string(cnt - 1) + " descriptor endpoints disagree with the caller's edge"); bad = true; break; }
            if (mask >> i & 1) { r.fail("repeated-edge", "cycle #" + std::to_string(cnt - 1) + " repeats edge " + std::to_string(i)); bad = true; break; }
            mask |= 1ull << i; cw += w[i]; ids.push_back(i);
            deg[b.ends[i].first]++; deg[b.ends[i].second]++;
        }
        if (!bad) {
            for (int v = 0; v < n; ++v) if (deg[v] != 0 && deg[v] != 2) { r.fail("not-simple-cycle", "cycle #" + std::to_string(cnt - 1) + " has a vertex of degree " + std::to_string(deg[v])); bad = true; break; }
        }
        if (!bad) {
            // connected: with all degrees 2 the edge set is a disjoint union of cycles; require exactly one
            vg::UF uf(n); int comps = 0; std::vector<char> seen(n, 0);
            for (int i : ids) uf.unite(b.ends[i].first, b.ends[i].second);
            for (int i : ids) { int rt = uf.find(b.ends[i].first); if (!seen[rt]) { seen[rt] = 1; ++comps; } }
            if (comps != 1) r.fail("not-simple-cycle", "cycle #" + std::to_string(cnt - 1) + " is a union of " + std::to_string(comps) + " cycles");
        }
        r.masks.push_back(mask); r.weights.push_back(cw); r.total += cw;
    }
    if (cnt != expected_count) r.fail("wrong-count", "emitted " + std::to_string(cnt) + " cycles, cycle space dimension is " + std::to_string(expected_count));
    if (r.ok) {
        vg::GF2Basis B;
        for (uint64_t m : r.masks) if (!B.add(m)) { r.fail("dependent", "emitted cycles are linearly dependent over GF(2)"); break; }
    }
    return r;
}

inline std::string vec_str(std::vector<double> v) {
    std::ostringstream os; os << "[";
    for (size_t i = 0; i < v.size(); ++i) { if (i) os << ","; os << vg::fmt_w(v[i]); }
    os << "]"; return os.str();
}

} // namespace vb
