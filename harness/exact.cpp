// C01 / C02 harness (flavour I): every labelled graph of G(n) x every weighting over an alphabet x every
// exact sequential variant, against the independent all-cycles + GF(2)-greedy reference.
//
//   exact --n 4 --alpha A3 --variants signed,fvs,iso --wtype double --out res.json
//   exact --families wheel:5,prism:4 --alpha A2 ...
//   exact --replay-case "n=4;e=0-1:1,...;variant=signed;wtype=double"
#include <memory>
#include <iostream>
#include "common/runner.hpp"
#include "common/graphs.hpp"
#include "common/bigref.hpp"
#include "common/bgl.hpp"
#include "common/variants.hpp"

enum Ctr { C_EVAL = 0, C_INPUTS, C_NONTRIV, C_DIM_MAX, C_SKIPPED };

struct Cfg {
    std::vector<int> variants;
    bool w_int = false;
    bool do_c01 = true, do_c02 = true;
};

template<class W>
static void run_case(vr::Runner &R, const Cfg &cfg, const vg::EdgeList &el, const std::vector<double> &w,
        const std::vector<uint64_t> &cyc, int dim, uint64_t unit, uint64_t sub, vb::Built<W> &b, bool verbose = false) {
    b.set_weights(w);
    vg::RefResult<double> ref;
    bool have_ref = false;
    for (size_t vi = 0; vi < cfg.variants.size(); ++vi) {
        int var = cfg.variants[vi];
        R.crumb(unit, sub, var);
        vv::CycleList<W> cycles;
        W ret = W();
        std::string exc;
        try { ret = vv::run_exact<W>(var, b, cycles); }
        catch (std::exception &e) { exc = std::string("exception: ") + e.what(); }
        catch (...) { exc = "unknown exception"; }
        R.count(C_EVAL);
        auto cs = [&]() { return vg::case_string(el, w, std::string("variant=") + vv::variant_name(var) + ";wtype=" + (cfg.w_int ? "int" : "double")); };
        if (!exc.empty()) { R.crumb_done(); R.violation({vv::variant_name(var), "exception", cs(), exc}); continue; }
        // still inside the case: validating (and, in sanitizer builds, dereferencing) what the library handed back belongs to it
        auto chk = vb::check_cycle_set<W>(b, w, cycles, dim);
        R.crumb_done();
        if (verbose) printf("variant=%s returned=%s emitted_total=%s weights=%s count=%zu\n", vv::variant_name(var),
                vg::fmt_w((double) ret).c_str(), vg::fmt_w(chk.total).c_str(), vb::vec_str(chk.weights).c_str(), chk.masks.size());
        if (!chk.ok && cfg.do_c01) R.violation({vv::variant_name(var), chk.cls, cs(), chk.msg});
        if (cfg.do_c02) {
            // C02 speaks about the weight of what was emitted; it is evaluated whenever the emitted edges can be weighed at all
            if (!chk.identifiable) { R.violation({vv::variant_name(var), "unweighable-output", cs(), "emitted lists contain descriptors that are not edges of the input, so their weight is undefined"}); continue; }
            if (!have_ref) {
                if (!cyc.empty() || dim == 0) { ref = vg::reference_mcb<double>(cyc, w, dim); std::sort(ref.weights.begin(), ref.weights.end()); }
                else { auto h = vbig::horton_reference(el, w); ref.total = h.total; ref.weights = h.weights; }    // larger instances: independent Horton reference
                have_ref = true;
            }
            if ((double) ret != chk.listed_total) {
                R.violation({vv::variant_name(var), "return-mismatch", cs(), "returned " + vg::fmt_w((double) ret) + " but emitted cycles weigh " + vg::fmt_w(chk.listed_total)});
                continue;
            }
            std::vector<double> ws = chk.listed_weights; std::sort(ws.begin(), ws.end());
            if (chk.listed_total != ref.total)
                R.violation({vv::variant_name(var), "not-minimum", cs(), "emitted weight " + vg::fmt_w(chk.listed_total) + ", optimum " + vg::fmt_w(ref.total)});
            else if (ws != ref.weights)
                R.violation({vv::variant_name(var), "weight-vector", cs(), "sorted cycle weights " + vb::vec_str(ws) + " differ from reference " + vb::vec_str(ref.weights)});
        }
    }
    if (verbose && have_ref) printf("reference total=%s weights=%s\n", vg::fmt_w(ref.total).c_str(), vb::vec_str(ref.weights).c_str());
}

struct Unit { vg::EdgeList el; std::string label; };

int main(int argc, char **argv) {
    vr::Args A(argc, argv);
#ifdef PARMCB_LOGGING
    // harness built against a config.hpp with PARMCB_LOGGING on: the library chats on std::cout; the replay path keeps it
    if (!A.has("replay-case")) std::cout.setstate(std::ios_base::badbit);
#endif
    Cfg cfg;
    cfg.variants = vv::parse_variants(A.get("variants", "signed,fvs,iso"));
    cfg.w_int = A.get("wtype", "double") == "int";
    std::string props = A.get("props", "C01,C02");
    cfg.do_c01 = props.find("C01") != std::string::npos;
    cfg.do_c02 = props.find("C02") != std::string::npos;
    vr::Runner R;
    R.nworkers = (int) A.geti("workers", 16);
    if (A.has("deadline-s")) R.deadline_abs = vr::now_s() + A.getd("deadline-s", 0);

    vv::out_kind() = (int) A.geti("outiter", 0);
    vv::wmap_kind() = (int) A.geti("wmap", 0);        // 1: exterior weight map, decoy values in the interior property     // 1: positional output iterator into a pre-sized vector
    if (A.has("replay-case")) {
        auto pc = vg::parse_case(A.get("replay-case"));
        cfg.variants = {vv::variant_by_short(pc.get("variant", "signed"))};
        cfg.w_int = pc.get("wtype", "double") == "int";
        int dim = vg::cycle_space_dim(pc.g);
        std::vector<uint64_t> cyc; if (dim <= 15 && pc.g.m() <= 62) cyc = vg::all_simple_cycles(pc.g);
        R.worker_id = 0;
        if (cfg.w_int) { vb::Built<int> b(pc.g, pc.w); run_case<int>(R, cfg, pc.g, pc.w, cyc, dim, 0, 0, b, true); }
        else { vb::Built<double> b(pc.g, pc.w); run_case<double>(R, cfg, pc.g, pc.w, cyc, dim, 0, 0, b, true); }
        if (R.vf) fclose(R.vf);
        uint64_t nv = R.sh->nviol.load();
        std::string fn = R.viol_prefix + ".0";
        if (FILE *f = fopen(fn.c_str(), "r")) { char buf[4096]; while (fgets(buf, sizeof buf, f)) fputs(buf, stdout); fclose(f); unlink(fn.c_str()); }
        unlink(R.viol_prefix.c_str());
        printf(nv ? "REPLAY-VIOLATION\n" : "REPLAY-OK\n");
        return nv ? 1 : 0;
    }

    std::vector<double> alpha = vg::alphabet(A.get("alpha", "A2"));
    int n = (int) A.geti("n", 0);
    std::vector<std::string> fams;
    if (A.has("families")) fams = vr::split(A.get("families"), ',');
    const uint64_t relabel_n = (uint64_t) std::max<long>(1, A.geti("relabel", 1));     // every family additionally under relabel_n - 1 renumberings of its vertices (fixed menu)
    std::unique_ptr<vg::BlobUniverse> blob;
    if (A.has("grammar")) { auto t = vr::split(A.get("grammar"), ':'); blob.reset(new vg::BlobUniverse(atoi(t[1].c_str()), atoi(t[2].c_str()))); }
    uint64_t ngraphs = blob ? blob->size() : fams.empty() ? vg::num_graphs(n) : fams.size() * relabel_n;
    uint64_t wchunks = (uint64_t) A.geti("wchunks", 1);       // a unit is (graph, residue class of weightings): spreads one big graph over all workers
    uint64_t total_units = ngraphs * wchunks;
    int max_m = (int) A.geti("max-m", 62), min_m = (int) A.geti("min-m", 0);
    int horton_above_dim = (int) A.geti("horton-above-dim", 15);
    uint64_t seed = (uint64_t) A.geti("seed", 0);

    int orient_mode = (int) A.geti("orient", 0);
    vg::plus_heavy_k2() = A.has("plus-heavy-k2");
    vg::edge_order_mode() = (int) A.geti("eorder", 0);
    auto unit_graph0 = [&](uint64_t u) -> vg::EdgeList {
        // seed only rotates the enumeration order
        uint64_t uu = ((u / wchunks) + seed) % ngraphs;
        return blob ? blob->build(uu) : fams.empty() ? vg::graph_from_mask(n, uu) : vg::relabel(vg::family(fams[uu / relabel_n]), (int) (uu % relabel_n));
    };
    auto unit_graph = [&](uint64_t u) { vg::EdgeList g = unit_graph0(u); vg::order_edges(g); vg::orient(g, orient_mode); if (vg::plus_heavy_k2()) { g.e.push_back({g.n, g.n + 1}); g.n += 2; } return g; };
    auto describe = [&](uint64_t u, uint64_t sub, uint64_t var) {
        vg::EdgeList el = unit_graph(u);
        std::vector<double> w; vg::weighting(alpha, el.m(), sub, w);
        return std::make_pair(std::string(vv::variant_name((int) var)),
                vg::case_string(el, w, std::string("variant=") + vv::variant_name((int) var) + ";wtype=" + (cfg.w_int ? "int" : "double")));
    };
    auto work = [&](uint64_t u, uint64_t start_sub) {
        vg::EdgeList el = unit_graph(u);
        if (el.m() > max_m || el.m() < min_m) { R.count(C_SKIPPED); return; }
        int dim = vg::cycle_space_dim(el);
        // all-cycles enumeration only where it is cheap; beyond that the Horton reference (cross-validated in C08) is the oracle
        std::vector<uint64_t> cyc; if (dim <= horton_above_dim) cyc = vg::all_simple_cycles(el);
        uint64_t nw = vg::num_weightings(alpha, el.m());
        std::vector<double> w;
        if (cfg.w_int) {
            vg::weighting(alpha, el.m(), 0, w); vb::Built<int> b(el, w);
            for (uint64_t s = start_sub; s < nw; ++s) { if (R.expired()) break; if (s % wchunks != u % wchunks) continue; vg::weighting(alpha, el.m(), s, w); R.count(C_INPUTS); if (dim >= 1) R.count(C_NONTRIV); run_case<int>(R, cfg, el, w, cyc, dim, u, s, b); }
        } else {
            vg::weighting(alpha, el.m(), 0, w); vb::Built<double> b(el, w);
            for (uint64_t s = start_sub; s < nw; ++s) { if (R.expired()) break; if (s % wchunks != u % wchunks) continue; vg::weighting(alpha, el.m(), s, w); R.count(C_INPUTS); if (dim >= 1) R.count(C_NONTRIV); run_case<double>(R, cfg, el, w, cyc, dim, u, s, b); }
        }
    };
    double t0 = vr::now_s();
    A.has("out"); A.require_all_used();
    auto res = R.run(total_units, work, describe);
    double wall = vr::now_s() - t0;

    // samples: a few written-out cases from the middle and the end of the enumeration
    std::vector<std::string> samples;
    for (uint64_t u : {total_units / 2, total_units - 1, total_units / 3}) {
        if (u >= total_units) continue;
        vg::EdgeList el = unit_graph(u);
        uint64_t nw = vg::num_weightings(alpha, el.m());
        samples.push_back(describe(u, nw / 2, cfg.variants[0]).second);
    }
    FILE *o = A.has("out") ? fopen(A.get("out").c_str(), "w") : stdout;
    fprintf(o, "{\"harness\":\"exact\",\"evaluations\":%" PRIu64 ",\"inputs\":%" PRIu64 ",\"distinct_nontrivial\":%" PRIu64
            ",\"units_total\":%" PRIu64 ",\"units_done\":%" PRIu64 ",\"skipped_units\":%" PRIu64 ",\"capped\":%s,\"crashes\":%" PRIu64 ",\"hangs\":%" PRIu64
            ",\"nviol\":%" PRIu64 ",\"wall_s\":%.3f,\n\"samples\":[",
            R.counter(C_EVAL), R.counter(C_INPUTS), R.counter(C_NONTRIV), res.units_total, res.units_done, R.counter(C_SKIPPED),
            res.capped ? "true" : "false", res.crashes, res.hangs, res.nviol, wall);
    for (size_t i = 0; i < samples.size(); ++i) fprintf(o, "%s\"%s\"", i ? "," : "", vr::json_escape(samples[i]).c_str());
    fprintf(o, "],\n\"violations\":[");
    for (size_t i = 0; i < res.violation_lines.size(); ++i) fprintf(o, "%s\n%s", i ? "," : "", res.violation_lines[i].c_str());
    fprintf(o, "]}\n");
    if (o != stdout) fclose(o);
    return 0;
}
