#include <iostream>
// C12 (SPTree), C13 (greedy_fvs), C14 (candidate collections), C16 (ForestIndex) - flavour I.
//   components --comp sptree|fvs|collections|forest --n N --alpha A [--edge-orders] ...
#include <memory>
#include <fstream>
#include <sstream>
#include "common/runner.hpp"
#include "common/graphs.hpp"
#include "common/bgl.hpp"
#include "common/bigref.hpp"
#include <boost/graph/filtered_graph.hpp>      // before the library: its qualified boost:: calls only see what is declared by then
#include <parmcb/config.hpp>
#include <parmcb/sptrees.hpp>
#include <parmcb/detail/fvs.hpp>
#include <parmcb/detail/cycles.hpp>
#include <parmcb/forestindex.hpp>
#include <set>

enum Ctr { C_EVAL = 0, C_INPUTS, C_NONTRIV, C_SKIPPED };

#ifndef VH_WTYPE
#define VH_WTYPE double
#endif
typedef VH_WTYPE W;     // -DVH_WTYPE="unsigned long": the same harness over an unsigned integral weight type
typedef vb::Built<W> B;
typedef B::Graph Graph;
typedef B::Edge Edge;
typedef boost::property_map<Graph, boost::edge_weight_t>::type WeightMap;
typedef parmcb::SPTree<Graph, WeightMap> Tree;

static std::string comp;
static int g_filtered = 0;                 // --filtered 1: greedy_fvs is also run on vertex-filtered VIEWS of the graph (hidden-vertex subsets)
static long long g_hidden_only = -1;       // replay: this subset of hidden vertices only

static std::string cs_of(const vg::EdgeList &el, const std::vector<double> &w, const std::string &extra = "") {
    return vg::case_string(el, w, "component=" + comp + (extra.empty() ? "" : ";" + extra));
}

// ---- own all-pairs shortest distances (Floyd-Warshall), exact on integer/dyadic weights ----
static std::vector<std::vector<double>> floyd(const vg::EdgeList &el, const std::vector<double> &w) {
    const double INF = 1e300;
    int n = el.n;
    std::vector<std::vector<double>> d(n, std::vector<double>(n, INF));
    for (int i = 0; i < n; ++i) d[i][i] = 0;
    for (int i = 0; i < el.m(); ++i) { int a = el.e[i].first, b = el.e[i].second; d[a][b] = std::min(d[a][b], w[i]); d[b][a] = std::min(d[b][a], w[i]); }
    for (int k = 0; k < n; ++k) for (int i = 0; i < n; ++i) for (int j = 0; j < n; ++j) if (d[i][k] + d[k][j] < d[i][j]) d[i][j] = d[i][k] + d[k][j];
    return d;
}

// path root->v of a tree as list of EdgeList positions, from v up to the root; false if broken
static bool tree_path(const B &b, const Tree &t, int root, int v, std::vector<int> &edges, std::vector<int> &verts, std::string &err) {
    edges.clear(); verts.clear();
    int n = (int) boost::num_vertices(b.g);
    int cur = v; verts.push_back(cur);
    for (int steps = 0; steps <= n; ++steps) {
        auto nd = t.node(cur);
        if (!nd) { err = "vertex " + std::to_string(cur) + " on a root path has no tree node"; return false; }
        if (!nd->has_pred()) { if (cur != root) { err = "root path of " + std::to_string(v) + " ends at " + std::to_string(cur) + ", not at the root"; return false; } return true; }
        auto it = b.by_prop.find(nd->pred().get_property());
        if (it == b.by_prop.end()) { err = "predecessor edge is not an edge of the graph"; return false; }
        int i = it->second;
        int a = b.ends[i].first, c = b.ends[i].second;
        if (a != cur && c != cur) { err = "predecessor edge of " + std::to_string(cur) + " is not incident to it"; return false; }
        cur = (a == cur) ? c : a;
        edges.push_back(i); verts.push_back(cur);
        for (size_t k = 0; k + 1 < verts.size(); ++k) if (verts[k] == cur) { err = "root path of " + std::to_string(v) + " repeats vertex " + std::to_string(cur); return false; }
    }
    err = "root path does not terminate"; return false;
}

// ---------------- C12 ----------------
static void check_sptrees(vr::Runner &R, const vg::EdgeList &el, const std::vector<double> &w, B &b) {
    const char *site = "SPTree";
    int n = el.n;
    WeightMap wm = boost::get(boost::edge_weight, b.g);
    auto im = boost::get(boost::vertex_index, b.g);
    auto D = floyd(el, w);
    std::vector<Tree> trees; trees.reserve(n);
    for (int s = 0; s < n; ++s) trees.emplace_back((std::size_t) s, b.g, im, wm, (unsigned long) s);
    R.count(C_EVAL, n);
    // paths[s][v] : edges from v up to s
    std::vector<std::vector<std::vector<int>>> P(n, std::vector<std::vector<int>>(n)), PV(n, std::vector<std::vector<int>>(n));
    for (int s = 0; s < n; ++s) {
        Tree &t = trees[s];
        if ((int) t.source() != s) { R.violation({site, "sptree-root", cs_of(el, w, "source=" + std::to_string(s)), "source() differs from the constructor argument"}); return; }
        for (int v = 0; v < n; ++v) {
            std::string c = cs_of(el, w, "source=" + std::to_string(s) + ";v=" + std::to_string(v));
            auto nd = t.node(v);
            bool reach = D[s][v] < 1e299;
            if (!reach) { if (nd) { R.violation({site, "sptree-unreachable", c, "unreachable vertex has a tree node"}); return; } continue; }
            if (!nd) { R.violation({site, "sptree-missing", c, "reachable vertex has no tree node"}); return; }
            if ((int) nd->vertex() != v) { R.violation({site, "sptree-node", c, "node(v)->vertex() != v"}); return; }
            if ((double) nd->weight() != D[s][v]) { R.violation({site, "sptree-distance", c, "weight() = " + vg::fmt_w(nd->weight()) + ", true distance " + vg::fmt_w(D[s][v])}); return; }
            std::string err;
            if (!tree_path(b, t, s, v, P[s][v], PV[s][v], err)) { R.violation({site, "sptree-path", c, err}); return; }
            double len = 0; for (int i : P[s][v]) len += w[i];
            if (len != D[s][v]) { R.violation({site, "sptree-path", c, "root path has length " + vg::fmt_w(len) + ", distance is " + vg::fmt_w(D[s][v])}); return; }
            int expect_first = (v == s) ? s : PV[s][v][PV[s][v].size() - 2];
            if ((int) t.first(v) != expect_first) { R.violation({site, "sptree-first", c, "first(v) = " + std::to_string(t.first(v)) + ", child of the root on the path is " + std::to_string(expect_first)}); return; }
        }
    }
    // cross-tree consistency
    for (int u = 0; u < n; ++u) for (int v = 0; v < n; ++v) {
        if (u == v || D[u][v] >= 1e299) continue;
        std::string c = cs_of(el, w, "u=" + std::to_string(u) + ";v=" + std::to_string(v));
        // P[u][v]: edges from v up to u.  P[v][u]: edges from u up to v. Reverse of one must equal the other.
        std::vector<int> rev(P[v][u].rbegin(), P[v][u].rend());
        if (rev != P[u][v]) { R.violation({site, "sptree-symmetry", c, "tree path u->v is not the reverse of tree path v->u"}); return; }
        // every w on path_u(v): path_w(v) is the corresponding part. PV[u][v] = v ... u ; position k vertex x: edges P[u][v][0..k) is the path from v up to x
        for (size_t k = 1; k + 1 < PV[u][v].size(); ++k) {
            int x = PV[u][v][k];
            std::vector<int> sub(P[u][v].begin(), P[u][v].begin() + k);
            if (sub != P[x][v]) { R.violation({site, "sptree-subpath", c + ";w=" + std::to_string(x), "sub-path of the chosen u-v path is not the chosen path between its endpoints"}); return; }
        }
    }
}

// ---------------- C13 ----------------
static void check_fvs(vr::Runner &R, const vg::EdgeList &el, const std::vector<double> &w, B &b) {
    const char *site = "greedy_fvs";
    std::vector<unsigned long> out;
    parmcb::greedy_fvs(b.g, std::back_inserter(out));
    R.count(C_EVAL);
    std::string c = cs_of(el, w);
    std::vector<char> in(el.n, 0);
    for (auto v : out) {
        if (v >= (unsigned long) el.n) { R.violation({site, "fvs-not-a-vertex", c, "emitted " + std::to_string(v) + " which is not a vertex"}); return; }
        if (in[v]++) { R.violation({site, "fvs-duplicate", c, "vertex " + std::to_string(v) + " emitted twice"}); return; }
    }
    vg::UF uf(el.n);
    for (int i = 0; i < el.m(); ++i) {
        int a = el.e[i].first, d = el.e[i].second;
        if (in[a] || in[d]) continue;
        if (!uf.unite(a, d)) { R.violation({site, "fvs-cycle-remains", c, "graph minus the emitted set still has a cycle (through edge " + std::to_string(a) + "-" + std::to_string(d) + ")"}); return; }
    }
    if (vg::cycle_space_dim(el) == 0 && !out.empty()) R.violation({site, "fvs-forest-nonempty", c, "input is a forest but " + std::to_string(out.size()) + " vertices were emitted"});
}

// greedy_fvs takes any vertex-list + incidence graph with a vertex index: a vertex-filtered view of an adjacency_list is
// one whose vertex indices are NOT 0..k-1 in enumeration order. The view hides a subset H of the vertices (and their
// edges); the oracle is the same as above, stated on the visible subgraph. H ranges over every non-empty subset for
// n <= 6, otherwise over a fixed menu (each single vertex, the first 1..3 vertices, every second vertex, all but the last 3).
struct HidePred {
    const std::vector<char> *hidden;
    HidePred() : hidden(nullptr) {}
    explicit HidePred(const std::vector<char> *h) : hidden(h) {}
    template<class V> bool operator()(const V &v) const { return !(*hidden)[v]; }
};
static void check_fvs_filtered(vr::Runner &R, const vg::EdgeList &el, const std::vector<double> &w, B &b) {
    const char *site = "greedy_fvs";
    int n = el.n; if (n < 1 || n > 62) return;
    std::vector<uint64_t> subsets;
    if (g_hidden_only >= 0) subsets.push_back((uint64_t) g_hidden_only);
    else if (n <= 6) for (uint64_t h = 1; h < (1ull << n); ++h) subsets.push_back(h);
    else {
        for (int v = 0; v < n; ++v) subsets.push_back(1ull << v);
        for (int k = 2; k <= 3; ++k) subsets.push_back((1ull << k) - 1);
        uint64_t alt = 0; for (int v = 0; v < n; v += 2) alt |= 1ull << v; subsets.push_back(alt); subsets.push_back(alt << 1 & ((1ull << n) - 1));
        subsets.push_back(((1ull << n) - 1) >> 3);
    }
    typedef boost::filtered_graph<Graph, boost::keep_all, HidePred> FG;
    for (uint64_t h : subsets) {
        std::vector<char> hidden(n, 0); for (int v = 0; v < n; ++v) hidden[v] = (char) (h >> v & 1);
        FG fg(b.g, boost::keep_all(), HidePred(&hidden));
        std::vector<unsigned long> out;
        parmcb::greedy_fvs(fg, std::back_inserter(out));
        R.count(C_EVAL);
        char hb[32]; snprintf(hb, sizeof hb, "hidden=%llu", (unsigned long long) h);
        auto C = [&] { return cs_of(el, w, hb); };
        std::vector<char> in(n, 0); bool bad = false;
        for (auto v : out) {
            if (v >= (unsigned long) n) { R.violation({site, "fvs-not-a-vertex", C(), "view: emitted " + std::to_string(v) + " which is not a vertex"}); bad = true; break; }
            if (hidden[v]) { R.violation({site, "fvs-not-a-vertex", C(), "view: emitted " + std::to_string(v) + " which is hidden by the view"}); bad = true; break; }
            if (in[v]++) { R.violation({site, "fvs-duplicate", C(), "view: vertex " + std::to_string(v) + " emitted twice"}); bad = true; break; }
        }
        if (bad) continue;
        vg::UF uf(n), uf_all(n); bool forest = true;
        for (int i = 0; i < el.m(); ++i) {
            int a = el.e[i].first, d = el.e[i].second;
            if (hidden[a] || hidden[d]) continue;
            if (!uf_all.unite(a, d)) forest = false;
            if (in[a] || in[d]) continue;
            if (!uf.unite(a, d)) { R.violation({site, "fvs-cycle-remains", C(), "view: visible graph minus the emitted set still has a cycle (through edge " + std::to_string(a) + "-" + std::to_string(d) + ")"}); bad = true; break; }
        }
        if (!bad && forest && !out.empty()) R.violation({site, "fvs-forest-nonempty", C(), "view: the visible graph is a forest but " + std::to_string(out.size()) + " vertices were emitted"});
    }
}

// ---------------- C14 ----------------
template<class Builder>
static bool collect(vr::Runner &R, const char *site, const vg::EdgeList &el, const std::vector<double> &w, B &b,
        std::vector<uint64_t> &masks, std::vector<double> &weights, std::set<std::pair<int, int>> &keys) {
    WeightMap wm = boost::get(boost::edge_weight, b.g);
    std::vector<Tree> trees;
    std::vector<parmcb::CandidateCycle<Graph, WeightMap>> cycles;
    Builder builder;
    builder(b.g, wm, trees, cycles);
    R.count(C_EVAL);
    for (auto &cc : cycles) {
        if (cc.tree() >= trees.size()) { R.violation({site, "cand-tree-index", cs_of(el, w), "candidate refers to tree " + std::to_string(cc.tree()) + " of " + std::to_string(trees.size())}); return false; }
        Tree &t = trees[cc.tree()];
        int root = (int) t.source();
        auto it = b.by_prop.find(cc.edge().get_property());
        if (it == b.by_prop.end()) { R.violation({site, "cand-edge", cs_of(el, w), "candidate edge is not an edge of the graph"}); return false; }
        int ei = it->second, u = el.e[ei].first, v = el.e[ei].second;
        std::string c = cs_of(el, w, "root=" + std::to_string(root) + ";edge=" + std::to_string(u) + "-" + std::to_string(v));
        if (!keys.insert({root, ei}).second) { /* duplicates are allowed by the property; ignore */ }
        std::vector<int> pu, pv, vu, vv_; std::string err;
        if (!tree_path(b, t, root, u, pu, vu, err) || !tree_path(b, t, root, v, pv, vv_, err)) { R.violation({site, "cand-path", c, err}); return false; }
        // e is not a tree edge of t
        for (int x = 0; x < el.n; ++x) { auto nd = t.node(x); if (nd && nd->has_pred() && nd->pred().get_property() == cc.edge().get_property()) { R.violation({site, "cand-tree-edge", c, "candidate edge is a tree edge of its tree"}); return false; } }
        // the two root paths share only the root
        std::set<int> su(vu.begin(), vu.end());
        for (int x : vv_) if (x != root && su.count(x)) { R.violation({site, "cand-not-simple", c, "root paths to the two endpoints share vertex " + std::to_string(x)}); return false; }
        uint64_t mask = 1ull << ei; double wt = w[ei];
        for (int i : pu) { mask |= 1ull << i; wt += w[i]; }
        for (int i : pv) { mask |= 1ull << i; wt += w[i]; }
        if (__builtin_popcountll(mask) != (int) (pu.size() + pv.size() + 1)) { R.violation({site, "cand-not-simple", c, "candidate repeats an edge"}); return false; }
        if ((double) cc.weight() != wt) { R.violation({site, "cand-weight", c, "recorded weight " + vg::fmt_w(cc.weight()) + ", true weight " + vg::fmt_w(wt)}); return false; }
        masks.push_back(mask); weights.push_back(wt);
    }
    return true;
}

static void greedy_check(vr::Runner &R, const char *site, const vg::EdgeList &el, const std::vector<double> &w,
        const std::vector<uint64_t> &masks, const std::vector<double> &weights, int dim, const vg::RefResult<double> &ref) {
    std::vector<uint32_t> ord(masks.size()); std::iota(ord.begin(), ord.end(), 0);
    std::stable_sort(ord.begin(), ord.end(), [&](uint32_t a, uint32_t b) { return weights[a] < weights[b]; });
    vg::GF2Basis Bs; double tot = 0;
    for (uint32_t i : ord) { if ((int) Bs.rank() == dim) break; if (Bs.add(masks[i])) tot += weights[i]; }
    if ((int) Bs.rank() != dim) { R.violation({site, "collection-rank", cs_of(el, w), "collection spans dimension " + std::to_string(Bs.rank()) + " of " + std::to_string(dim)}); return; }
    if (tot != ref.total) R.violation({site, "collection-not-sufficient", cs_of(el, w), "greedy over the collection gives " + vg::fmt_w(tot) + ", optimum " + vg::fmt_w(ref.total)});
}

// Size threshold of the tree representation: a root with more than 65535 tree children. Family hub:D:c = a star with D
// leaves (vertex 0 is the hub) plus c chords {i, i+65536}, unit weights. Every chord closes a triangle with two spokes, the
// c triangles are independent and no cycle has fewer than 3 edges, so the minimum cycle basis weighs exactly 3c - an oracle
// that needs no reference computation. Only the FVS builder is run (one tree, rooted at the hub; Horton / ISO would build
// D trees). Candidates are validated as edge SETS (the 64-bit masks of the small-graph oracle do not apply).
template<class Builder>
static void check_collection_big(vr::Runner &R, const char *site, const vg::EdgeList &el, const std::vector<double> &w, B &b, double optimum) {
    int dim = vg::cycle_space_dim(el);
    WeightMap wm = boost::get(boost::edge_weight, b.g);
    std::vector<Tree> trees;
    std::vector<parmcb::CandidateCycle<Graph, WeightMap>> cycles;
    Builder builder;
    builder(b.g, wm, trees, cycles);
    R.count(C_EVAL);
    auto C = [&] { return cs_of(el, w); };
    std::vector<std::pair<double, std::vector<int>>> cand;
    for (auto &cc : cycles) {
        if (cc.tree() >= trees.size()) { R.violation({site, "cand-tree-index", C(), "candidate refers to tree " + std::to_string(cc.tree()) + " of " + std::to_string(trees.size())}); return; }
        Tree &t = trees[cc.tree()];
        int root = (int) t.source();
        auto it = b.by_prop.find(cc.edge().get_property());
        if (it == b.by_prop.end()) { R.violation({site, "cand-edge", C(), "candidate edge is not an edge of the graph"}); return; }
        int ei = it->second, u = el.e[ei].first, v = el.e[ei].second;
        std::vector<int> pu, pv, vu, vv_; std::string err;
        if (!tree_path(b, t, root, u, pu, vu, err) || !tree_path(b, t, root, v, pv, vv_, err)) { R.violation({site, "cand-path", C(), err}); return; }
        std::set<int> su(vu.begin(), vu.end());
        for (int x : vv_) if (x != root && su.count(x)) { R.violation({site, "cand-not-simple", C(), "root paths to the two endpoints share vertex " + std::to_string(x)}); return; }
        std::vector<int> es = pu; es.insert(es.end(), pv.begin(), pv.end()); es.push_back(ei); std::sort(es.begin(), es.end());
        if (std::adjacent_find(es.begin(), es.end()) != es.end()) { R.violation({site, "cand-not-simple", C(), "candidate repeats an edge"}); return; }
        double tw = 0; for (int x : es) tw += w[x];
        if ((double) cc.weight() != tw) { R.violation({site, "cand-weight", C(), "recorded weight " + vg::fmt_w(cc.weight()) + ", true weight " + vg::fmt_w(tw)}); return; }
        cand.push_back({tw, es});
    }
    std::stable_sort(cand.begin(), cand.end(), [](const std::pair<double, std::vector<int>> &a, const std::pair<double, std::vector<int>> &b2) { return a.first < b2.first; });
    std::map<int, std::vector<int>> pivots; double tot = 0;       // sparse GF(2) elimination: pivot = smallest edge index
    for (auto &cd : cand) {
        if ((int) pivots.size() == dim) break;
        std::vector<int> v = cd.second;
        while (!v.empty()) { auto pit = pivots.find(v[0]); if (pit == pivots.end()) break; std::vector<int> x; std::set_symmetric_difference(v.begin(), v.end(), pit->second.begin(), pit->second.end(), std::back_inserter(x)); v.swap(x); }
        if (!v.empty()) { pivots[v[0]] = v; tot += cd.first; }
    }
    if ((int) pivots.size() != dim) { R.violation({site, "collection-rank", C(), "collection of " + std::to_string(cand.size()) + " candidates spans dimension " + std::to_string(pivots.size()) + " of " + std::to_string(dim)}); return; }
    if (tot != optimum) R.violation({site, "collection-not-sufficient", C(), "greedy over the collection gives " + vg::fmt_w(tot) + ", optimum " + vg::fmt_w(optimum)});
}

// collections-hub: FVS builder, optimum 3 per chord by construction (see above). collections-big: FVS and ISO builders on graphs beyond
// the 64-bit edge masks of the small-graph oracle (hundreds of vertices: internal size thresholds, trees built by several threads);
// the optimum comes from the independent Horton reference (bigref.hpp; integer weights, exact).
static void check_fvs_collection_hub(vr::Runner &R, const vg::EdgeList &el, const std::vector<double> &w, B &b) {
    for (double x : w) if (x != 1) { fprintf(stderr, "collections-hub needs unit weights\n"); exit(2); }
    check_collection_big<parmcb::detail::FVSCyclesBuilder<Graph, WeightMap>>(R, "FVSCyclesBuilder", el, w, b, 3.0 * vg::cycle_space_dim(el));
}
static void check_collections_big(vr::Runner &R, const vg::EdgeList &el, const std::vector<double> &w, B &b) {
    double opt = vbig::horton_reference(el, w).total;
    check_collection_big<parmcb::detail::FVSCyclesBuilder<Graph, WeightMap>>(R, "FVSCyclesBuilder", el, w, b, opt);
    check_collection_big<parmcb::detail::ISOCyclesBuilder<Graph, WeightMap>>(R, "ISOCyclesBuilder", el, w, b, opt);
}

static void check_collections(vr::Runner &R, const vg::EdgeList &el, const std::vector<double> &w, B &b, const std::vector<uint64_t> &cyc, int dim) {
    std::vector<uint64_t> mh, mf, mi; std::vector<double> wh, wf, wi; std::set<std::pair<int, int>> kh, kf, ki;
    if (!collect<parmcb::detail::HortonCyclesBuilder<Graph, WeightMap>>(R, "HortonCyclesBuilder", el, w, b, mh, wh, kh)) return;
    if (!collect<parmcb::detail::FVSCyclesBuilder<Graph, WeightMap>>(R, "FVSCyclesBuilder", el, w, b, mf, wf, kf)) return;
    if (!collect<parmcb::detail::ISOCyclesBuilder<Graph, WeightMap>>(R, "ISOCyclesBuilder", el, w, b, mi, wi, ki)) return;
    for (auto &k : kf) if (!kh.count(k)) { R.violation({"FVSCyclesBuilder", "collection-not-nested", cs_of(el, w), "FVS candidate (root " + std::to_string(k.first) + ", edge #" + std::to_string(k.second) + ") is not a Horton candidate"}); return; }
    for (auto &k : ki) if (!kh.count(k)) { R.violation({"ISOCyclesBuilder", "collection-not-nested", cs_of(el, w), "ISO candidate (root " + std::to_string(k.first) + ", edge #" + std::to_string(k.second) + ") is not a Horton candidate"}); return; }
    auto ref = vg::reference_mcb<double>(cyc, w, dim);
    greedy_check(R, "HortonCyclesBuilder", el, w, mh, wh, dim, ref);
    greedy_check(R, "FVSCyclesBuilder", el, w, mf, wf, dim, ref);
    greedy_check(R, "ISOCyclesBuilder", el, w, mi, wi, dim, ref);
}

// ---------------- C16 ----------------
// all observations of one ForestIndex object against union-find; `how` names the way the object was obtained
static bool verify_forest(vr::Runner &R, const parmcb::ForestIndex<Graph> &fi, const vg::EdgeList &el, const B &b, const std::string &c0, const char *how) {
    const char *site = "ForestIndex";
    std::string c = c0 + ";object=" + how;
    int m = el.m(), n = el.n, comps = vg::components(el), dim = m - n + comps;
    if ((int) fi.weak_connected_components() != comps) { R.violation({site, "forest-components", c, "weak_connected_components() = " + std::to_string(fi.weak_connected_components()) + ", true " + std::to_string(comps)}); return false; }
    if ((long) fi.cycle_space_dimension() != dim) { R.violation({site, "forest-dimension", c, "cycle_space_dimension() = " + std::to_string(fi.cycle_space_dimension()) + ", true " + std::to_string(dim)}); return false; }
    std::vector<int> seen(m, 0);
    vg::UF uf(n); int forest_edges = 0;
    for (int i = 0; i < m; ++i) {
        std::size_t idx;
        try { idx = fi(b.edges[i]); } catch (std::exception &e) { R.violation({site, "forest-lookup", c, std::string("edge -> index lookup threw: ") + e.what()}); return false; }
        if (idx >= (std::size_t) m) { R.violation({site, "forest-range", c, "index " + std::to_string(idx) + " out of 0..m-1"}); return false; }
        if (seen[idx]++) { R.violation({site, "forest-not-injective", c, "index " + std::to_string(idx) + " assigned twice"}); return false; }
        const Edge &back = fi(idx);
        if (back.get_property() != b.edges[i].get_property()) { R.violation({site, "forest-not-inverse", c, "index -> edge lookup of " + std::to_string(idx) + " does not return the edge it was assigned to"}); return false; }
        bool onf = fi.is_on_forest(b.edges[i]);
        if (onf != ((long) idx >= dim)) { R.violation({site, "forest-flag", c, "is_on_forest disagrees with index >= dimension for index " + std::to_string(idx)}); return false; }
        if (onf) { ++forest_edges; if (!uf.unite(el.e[i].first, el.e[i].second)) { R.violation({site, "forest-cyclic", c, "edges reported on the forest contain a cycle"}); return false; } }
    }
    if (forest_edges != n - comps) { R.violation({site, "forest-size", c, std::to_string(forest_edges) + " forest edges, a spanning forest has " + std::to_string(n - comps)}); return false; }
    // the lookups return references: two results that are alive at the same time must both stay right (this is how
    // comparators such as forest_index(a) < forest_index(b) and std::minmax(fi(a), fi(b)) use the class)
    for (int i = 0; i < m; ++i) for (int j = 0; j < m; ++j) {
        if (i == j) continue;
        const auto &ri = fi(b.edges[i]); const auto &rj = fi(b.edges[j]);
        if (ri == rj || !(fi(ri).get_property() == b.edges[i].get_property()) || !(fi(rj).get_property() == b.edges[j].get_property())) {
            R.violation({site, "forest-live-references", c, "two edge -> index results held at the same time do not both stay valid (edges #" + std::to_string(i) + " and #" + std::to_string(j) + ")"}); return false; }
        const Edge &ea = fi((std::size_t) ri); const Edge &eb = fi((std::size_t) rj);
        if (!(ea.get_property() == b.edges[i].get_property()) || !(eb.get_property() == b.edges[j].get_property())) {
            R.violation({site, "forest-live-references", c, "two index -> edge results held at the same time do not both stay valid"}); return false; }
        if (m > 12 && j > i + 3) break;       // large graphs: neighbouring pairs only
    }
    return true;
}

// A ForestIndex is judged however it was obtained: constructed from the graph, copy-constructed, or assigned over an
// index that previously described ANOTHER graph (a triangle with a pendant edge and an isolated vertex: dimension 1,
// 2 components), and self-assigned. The class ships hand-written copy operations, so these are part of its surface.
static void check_forest(vr::Runner &R, const vg::EdgeList &el, const std::vector<double> &w, B &b, const std::string &extra) {
    std::string c = cs_of(el, w, extra);
    parmcb::ForestIndex<Graph> fi(b.g);
    R.count(C_EVAL);
    if (!verify_forest(R, fi, el, b, c, "constructed")) return;
    parmcb::ForestIndex<Graph> cp(fi);
    if (!verify_forest(R, cp, el, b, c, "copy-constructed")) return;
    static vg::EdgeList other_el = [] { vg::EdgeList g; g.n = 5; g.e = {{0, 1}, {1, 2}, {0, 2}, {2, 3}}; return g; }();
    static B other(other_el, std::vector<double>(4, 1.0));
    parmcb::ForestIndex<Graph> as(other.g);
    as = fi;
    if (!verify_forest(R, as, el, b, c, "assigned-over-another-graph's-index")) return;
    as = *&as;
    if (!verify_forest(R, as, el, b, c, "self-assigned")) return;
    // a copy is an independent value: it must stay right after the object it was copied from is gone (and after the
    // memory of that object has been handed to somebody else - here to a fresh index of the other graph)
    parmcb::ForestIndex<Graph> *src = new parmcb::ForestIndex<Graph>(b.g);
    parmcb::ForestIndex<Graph> cp2(*src), as2(other.g);
    as2 = *src;
    delete src;
    parmcb::ForestIndex<Graph> reuse1(other.g), reuse2(other.g);
    if (!verify_forest(R, cp2, el, b, c, "copy-constructed,-source-destroyed")) return;
    verify_forest(R, as2, el, b, c, "assigned,-source-destroyed");
}

static void run_case(vr::Runner &R, const vg::EdgeList &el, const std::vector<double> &w, B &b, const std::vector<uint64_t> &cyc, int dim) {
    b.set_weights(w);
    try {
        if (comp == "sptree") check_sptrees(R, el, w, b);
        else if (comp == "fvs") { if (g_filtered) check_fvs_filtered(R, el, w, b); else check_fvs(R, el, w, b); }
        else if (comp == "collections") check_collections(R, el, w, b, cyc, dim);
        else if (comp == "collections-hub") check_fvs_collection_hub(R, el, w, b);
        else if (comp == "collections-big") check_collections_big(R, el, w, b);
        else if (comp == "forest") check_forest(R, el, w, b, "");
    } catch (std::exception &e) { R.violation({comp, "exception", cs_of(el, w), e.what()}); }
}

int main(int argc, char **argv) {
    vr::Args A(argc, argv);
#ifdef PARMCB_LOGGING
    std::cout.setstate(std::ios_base::badbit);      // built against a config.hpp with PARMCB_LOGGING on: the library chats on std::cout (harness output uses stdio)
#endif
    comp = A.get("comp", "sptree");
    vr::Runner R;
    R.nworkers = (int) A.geti("workers", 16);
    if (A.has("deadline-s")) R.deadline_abs = vr::now_s() + A.getd("deadline-s", 0);
    bool edge_orders = A.has("edge-orders");

    if (A.has("replay-case")) {
        std::string rc = A.get("replay-case");
        if (rc.rfind("@file:", 0) == 0) { std::ifstream in(rc.substr(6)); std::stringstream ss; ss << in.rdbuf(); rc = ss.str(); }     // cases too long for one argv entry
        auto pc = vg::parse_case(rc);
        comp = pc.get("component", comp);
        if (!pc.get("hidden").empty()) { g_filtered = 1; g_hidden_only = atoll(pc.get("hidden").c_str()); }
        else if (pc.get("filtered") == "1") g_filtered = 1;       // a crash inside the unit: every view of the graph is replayed
        R.worker_id = 0;
        std::vector<int> order;
        if (!pc.get("order").empty()) for (auto &s : vr::split(pc.get("order"), '.')) order.push_back(atoi(s.c_str()));
        B b(pc.g, pc.w, order.empty() ? nullptr : &order);
        std::vector<uint64_t> cyc; if (comp == "collections") cyc = vg::all_simple_cycles(pc.g);
        if (comp == "forest" && !order.empty()) { try { check_forest(R, pc.g, pc.w, b, "order=" + pc.get("order")); } catch (std::exception &e) { R.violation({comp, "exception", A.get("replay-case"), e.what()}); } }
        else run_case(R, pc.g, pc.w, b, cyc, vg::cycle_space_dim(pc.g));
        if (R.vf) fclose(R.vf);
        uint64_t nv = R.sh->nviol.load();
        std::string fn = R.viol_prefix + ".0";
        if (FILE *f = fopen(fn.c_str(), "r")) { char buf[4096]; while (fgets(buf, sizeof buf, f)) fputs(buf, stdout); fclose(f); unlink(fn.c_str()); }
        unlink(R.viol_prefix.c_str());
        printf(nv ? "REPLAY-VIOLATION\n" : "REPLAY-OK\n");
        return nv ? 1 : 0;
    }

    std::vector<double> alpha = vg::alphabet(A.get("alpha", "U"));
    int n = (int) A.geti("n", 0);
    std::vector<std::string> fams;
    if (A.has("families")) fams = vr::split(A.get("families"), ',');
    const uint64_t relabel_n = (uint64_t) std::max<long>(1, A.geti("relabel", 1));     // every family additionally under relabel_n - 1 renumberings of its vertices (fixed menu)
    std::unique_ptr<vg::BlobUniverse> blob;
    if (A.has("grammar")) { auto t = vr::split(A.get("grammar"), ':'); blob.reset(new vg::BlobUniverse(atoi(t[1].c_str()), atoi(t[2].c_str()))); }
    int sparse_m = (int) A.geti("sparse", -1);     // --n N --sparse M: every graph on N vertices with at most M edges
    uint64_t total_units = blob ? blob->size() : !fams.empty() ? fams.size() * relabel_n : sparse_m >= 0 ? vg::num_sparse_graphs(n, sparse_m) : vg::num_graphs(n);
    uint64_t seed = (uint64_t) A.geti("seed", 0);
    // only the candidate-collection oracle works on 64-bit edge masks; the other components take graphs of any size
    int max_m = (int) A.geti("max-m", comp == "collections" ? 62 : (1 << 30));
    bool weighted = (comp == "sptree" || comp == "collections");
    int orient_mode = (int) A.geti("orient", 0);
    vg::plus_heavy_k2() = A.has("plus-heavy-k2");
    g_filtered = (int) A.geti("filtered", 0);
    vg::edge_order_mode() = (int) A.geti("eorder", 0);
    auto unit_graph0 = [&](uint64_t u) { uint64_t uu = (u + seed) % total_units; return blob ? blob->build(uu) : !fams.empty() ? vg::relabel(vg::family(fams[uu / relabel_n]), (int) (uu % relabel_n)) : sparse_m >= 0 ? vg::sparse_graph(n, sparse_m, uu) : vg::graph_from_mask(n, uu); };
    auto unit_graph = [&](uint64_t u) { vg::EdgeList g = unit_graph0(u); vg::order_edges(g); vg::orient(g, orient_mode); if (vg::plus_heavy_k2()) { g.e.push_back({g.n, g.n + 1}); g.n += 2; } return g; };
    auto describe = [&](uint64_t u, uint64_t sub, uint64_t) {
        vg::EdgeList el = unit_graph(u);
        std::vector<double> w;
        if (edge_orders) { vg::weighting(alpha, el.m(), 0, w); std::vector<int> p(el.m()); std::iota(p.begin(), p.end(), 0); for (uint64_t i = 0; i < sub; ++i) std::next_permutation(p.begin(), p.end());
            std::string o; for (size_t i = 0; i < p.size(); ++i) o += (i ? "." : "") + std::to_string(p[i]); return std::make_pair(comp, cs_of(el, w, "order=" + o)); }
        vg::weighting(alpha, el.m(), weighted ? sub : 0, w);
        return std::make_pair(comp, cs_of(el, w, g_filtered ? "filtered=1" : ""));
    };
    auto work = [&](uint64_t u, uint64_t start_sub) {
        vg::EdgeList el = unit_graph(u);
        if (el.m() > max_m) { R.count(C_SKIPPED); return; }
        int dim = vg::cycle_space_dim(el);
        std::vector<double> w; vg::weighting(alpha, el.m(), 0, w);
        if (edge_orders) {
            std::vector<int> p(el.m()); std::iota(p.begin(), p.end(), 0);
            uint64_t s = 0;
            do {
                if (s >= start_sub) {
                    R.crumb(u, s, 0); R.count(C_INPUTS); if (el.m() >= 1) R.count(C_NONTRIV);
                    B b(el, w, &p);
                    std::string o; for (size_t i = 0; i < p.size(); ++i) o += (i ? "." : "") + std::to_string(p[i]);
                    try { check_forest(R, el, w, b, "order=" + o); } catch (std::exception &e) { R.violation({comp, "exception", cs_of(el, w, "order=" + o), e.what()}); }
                    R.crumb_done();
                }
                ++s;
            } while (std::next_permutation(p.begin(), p.end()));
            return;
        }
        std::vector<uint64_t> cyc; if (comp == "collections") cyc = vg::all_simple_cycles(el);
        uint64_t nw = weighted ? vg::num_weightings(alpha, el.m()) : 1;
        B b(el, w);
        for (uint64_t s = start_sub; s < nw; ++s) { if (R.expired()) break;
            vg::weighting(alpha, el.m(), s, w);
            R.crumb(u, s, 0); R.count(C_INPUTS);
            bool nontriv = comp == "sptree" ? el.m() >= 1 : comp == "forest" ? el.m() >= 1 : dim >= 1;
            if (nontriv) R.count(C_NONTRIV);
            run_case(R, el, w, b, cyc, dim);
            R.crumb_done();
        }
    };
    double t0 = vr::now_s();
    A.has("out"); A.require_all_used();
    auto res = R.run(total_units, work, describe);
    double wall = vr::now_s() - t0;
    std::vector<std::string> samples;
    for (uint64_t u : {total_units / 2, total_units - 1, total_units / 3}) {
        if (u >= total_units) continue;
        vg::EdgeList el = unit_graph(u);
        uint64_t nw = edge_orders ? 2 : (weighted ? vg::num_weightings(alpha, el.m()) : 1);
        samples.push_back(describe(u, nw / 2, 0).second);
    }
    FILE *o = A.has("out") ? fopen(A.get("out").c_str(), "w") : stdout;
    fprintf(o, "{\"harness\":\"components\",\"evaluations\":%" PRIu64 ",\"inputs\":%" PRIu64 ",\"distinct_nontrivial\":%" PRIu64
            ",\"skipped_above_max_m\":%" PRIu64 ",\"units_total\":%" PRIu64 ",\"units_done\":%" PRIu64 ",\"capped\":%s,\"crashes\":%" PRIu64 ",\"hangs\":%" PRIu64 ",\"nviol\":%" PRIu64 ",\"wall_s\":%.3f,\n\"samples\":[",
            R.counter(C_EVAL), R.counter(C_INPUTS), R.counter(C_NONTRIV), R.counter(C_SKIPPED), res.units_total, res.units_done,
            res.capped ? "true" : "false", res.crashes, res.hangs, res.nviol, wall);
    for (size_t i = 0; i < samples.size(); ++i) fprintf(o, "%s\"%s\"", i ? "," : "", vr::json_escape(samples[i]).c_str());
    fprintf(o, "],\n\"violations\":[");
    for (size_t i = 0; i < res.violation_lines.size(); ++i) fprintf(o, "%s\n%s", i ? "," : "", res.violation_lines[i].c_str());
    fprintf(o, "]}\n");
    if (o != stdout) fclose(o);
    return 0;
}
