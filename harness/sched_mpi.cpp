#include <iostream>
// C04 harness (flavour S): the unmodified parmcb MPI entry points on the vmpi shim (P rank threads under a baton
// scheduler, collectives with deadlock detection, reduce combination orders enumerated) with nested TBB calls on the
// vtbb shim and an explicit per-rank heap layout (pointer order of the edge descriptors) chosen by the explorer.
#include <memory>
#include <new>
#include <cstdlib>
#include <cstring>

#include "common/ptrorder.hpp"

#define VH_TBB 1
#include "common/runner.hpp"
#include "common/graphs.hpp"
#include "common/bgl.hpp"
#include "common/explore.hpp"
#include <parmcb/config.hpp>
#include <parmcb/mpi/parmcb.hpp>

enum Ctr { C_EXEC = 0, C_INPUTS, C_NONTRIV, C_POINTS, C_STATES, C_COLLECTIVES, C_MAXOUT, C_MULTI, C_CAPPED_INPUTS, C_PRUNED, C_MAXTRACE, C_LAYOUT_DEV, C_DEADLOCKS };

typedef double W;
typedef vb::Built<W> B;
typedef B::Graph Graph;
typedef B::Edge Edge;

enum MV { SIGNED_MPI = 0, FVS_MPI, FVS_TBB_MPI, ISO_MPI, ISO_TBB_MPI, NMV };
static const char *mv_name(int v) { static const char *n[] = {"mcb_sva_signed_mpi", "mcb_sva_fvs_trees_mpi", "mcb_sva_fvs_trees_tbb_mpi", "mcb_sva_iso_trees_mpi", "mcb_sva_iso_trees_tbb_mpi"}; return n[v]; }
static int mv_by_name(const std::string &s) {
    static const char *sh[] = {"signed_mpi", "fvs_mpi", "fvs_tbb_mpi", "iso_mpi", "iso_tbb_mpi"};
    for (int v = 0; v < NMV; ++v) if (s == sh[v] || s == mv_name(v)) return v;
    fprintf(stderr, "unknown mpi variant %s\n", s.c_str()); exit(2);
}

struct Cfg { std::vector<int> variants; std::vector<int> Ps; int bound = 1; int layout_mode = 0; uint64_t max_exec = 500000; bool baton_rev = false; int outcome_bound = 1 << 30; int subcomm = 0; };

// layout menu: permutation number -> slot order. 0 = identity (allocation order = address order)
static std::vector<std::vector<int>> layout_menu(int m, int mode) {
    std::vector<std::vector<int>> L;
    std::vector<int> id(m); for (int i = 0; i < m; ++i) id[i] = i;
    L.push_back(id);
    if (m < 2) return L;
    if (mode >= 1 && m <= 4) { std::vector<int> p = id; while (std::next_permutation(p.begin(), p.end())) L.push_back(p); return L; }
    std::vector<int> rev(id.rbegin(), id.rend()); L.push_back(rev);
    if (mode >= 1) for (int i = 0; i + 1 < m; ++i) { std::vector<int> p = id; std::swap(p[i], p[i + 1]); L.push_back(p); }
    return L;
}

struct RankGraph {
    std::unique_ptr<B> b; char *region = nullptr;
};

static std::unique_ptr<B> build_with_layout(const vg::EdgeList &el, const std::vector<double> &w, const std::vector<int> &perm) {
    int m = el.m();
    vptr::node_size = sizeof(std::_List_node<typename Graph::EdgeContainer::value_type>);
    vptr::stride = (vptr::node_size + 15) / 16 * 16;
    char *region = vptr::slab_region(vptr::stride * (m + 1));        // carved from the per-process pool, rewound at every execution
    vptr::slab_base = region; vptr::perm = perm.data(); vptr::want = m; vptr::served = 0; vptr::other_allocs = 0;
    vb::edge_alloc_begin() = [](int) { vptr::slab_armed = true; };
    vb::edge_alloc_end() = []() { vptr::slab_armed = false; };
    std::unique_ptr<B> b(new B(el, w));
    vb::edge_alloc_begin() = nullptr; vb::edge_alloc_end() = nullptr;
    if ((int) vptr::served != m || vptr::other_allocs != 0) { fprintf(stderr, "HARNESS-ERROR slab: served %zu of %d nodes, %zu foreign allocations while armed\n", vptr::served, m, vptr::other_allocs); exit(2); }
    // achieved pointer order must be the requested one
    for (int i = 0; i < m; ++i) for (int j = 0; j < m; ++j)
        if ((perm[i] < perm[j]) != ((char*) b->edges[i].get_property() < (char*) b->edges[j].get_property())) { fprintf(stderr, "HARNESS-ERROR slab: pointer order differs from requested layout\n"); exit(2); }
    return b;
}

struct Verdict { bool ok = true; std::string cls, msg; };

static std::string g_last_state;
static int g_subcomm = 0;

static Verdict run_and_check(const Cfg &cfg, int var, int P, const vg::EdgeList &el, const std::vector<double> &w, int dim,
        const vg::RefResult<double> &ref, bool rev_baton, uint64_t *collectives, uint64_t *maxout, uint64_t *multi, int *layout_dev, bool verbose = false) {
    Verdict v;
    auto menu = layout_menu(el.m(), cfg.layout_mode);
    vptr::slab_rewind();
    std::vector<std::unique_ptr<B>> gs(P);
    for (int r = 0; r < P; ++r) { int li = vx::choose((int) menu.size(), vx::ORDER); if (li && layout_dev) ++*layout_dev; gs[r] = build_with_layout(el, w, menu[li]); }
    typedef std::list<std::list<Edge>> Cycles;
    std::vector<Cycles> cycles(P); std::vector<W> ret(P, 0);
    boost::mpi::vmpi::World world(P);
    if (rev_baton) std::reverse(world.baton_order.begin(), world.baton_order.end());
    bool ok = boost::mpi::vmpi::run_ranks(world, [&](int r) {
        // --subcomm: the entry points take "a communicator", not "the world": 1 = the world split by rank parity (two
        // independent computations side by side), 2 = every rank alone in its own communicator (size 1 inside a larger job)
        boost::mpi::communicator world_comm;
        boost::mpi::communicator comm = cfg.subcomm == 1 ? world_comm.split(r % 2) : cfg.subcomm == 2 ? world_comm.split(r) : world_comm;
        auto wm = boost::get(boost::edge_weight, gs[r]->g);
        auto out = std::back_inserter(cycles[r]);
        switch (var) {
        case SIGNED_MPI: ret[r] = parmcb::mcb_sva_signed_mpi(gs[r]->g, wm, out, comm); break;
        case FVS_MPI: ret[r] = parmcb::mcb_sva_fvs_trees_mpi(gs[r]->g, wm, out, comm); break;
        case FVS_TBB_MPI: ret[r] = parmcb::mcb_sva_fvs_trees_tbb_mpi(gs[r]->g, wm, out, comm); break;
        case ISO_MPI: ret[r] = parmcb::mcb_sva_iso_trees_mpi(gs[r]->g, wm, out, comm); break;
        case ISO_TBB_MPI: ret[r] = parmcb::mcb_sva_iso_trees_tbb_mpi(gs[r]->g, wm, out, comm); break;
        }
    });
    if (collectives) *collectives += world.collectives;
    if (maxout && world.reduce_max_outcomes > *maxout) *maxout = world.reduce_max_outcomes;
    if (multi) *multi += world.reduce_multi;
    g_last_state = boost::mpi::vmpi::describe(world);
    if (!ok) { v.ok = false; v.cls = "deadlock"; v.msg = "no rank can run: " + world.deadlock_desc; return v; }
    if (!world.rank_errors.empty()) { v.ok = false; v.cls = "exception"; v.msg = world.rank_errors[0]; return v; }
    // leaders = rank 0 of each communicator the entry point ran on (the only ranks that may report a basis)
    std::vector<int> leaders;
    for (int r = 0; r < P; ++r) { bool lead = cfg.subcomm == 0 ? r == 0 : cfg.subcomm == 1 ? r < 2 : true; if (lead) leaders.push_back(r); }
    for (int r = 0; r < P; ++r) if (std::find(leaders.begin(), leaders.end(), r) == leaders.end() && !cycles[r].empty()) { v.ok = false; v.cls = "nonroot-output"; v.msg = "rank " + std::to_string(r) + " emitted " + std::to_string(cycles[r].size()) + " cycles"; return v; }
    for (int L : leaders) {
        std::string who = cfg.subcomm ? "world rank " + std::to_string(L) + " (rank 0 of its communicator)" : std::string("rank 0");
        auto chk = vb::check_cycle_set<W>(*gs[L], w, cycles[L], dim);
        if (verbose) printf("P=%d %s returned=%s emitted_total=%s weights=%s count=%zu %s | %s\n", P, who.c_str(), vg::fmt_w(ret[L]).c_str(), vg::fmt_w(chk.total).c_str(), vb::vec_str(chk.weights).c_str(), chk.masks.size(), chk.ok ? "valid" : chk.msg.c_str(), g_last_state.c_str());
        if (!chk.ok) { v.ok = false; v.cls = chk.cls; v.msg = who + ": " + chk.msg; return v; }
        if (ret[L] != chk.total) { v.ok = false; v.cls = "return-mismatch"; v.msg = who + " returned " + vg::fmt_w(ret[L]) + " but its cycles weigh " + vg::fmt_w(chk.total); return v; }
        std::vector<double> ws = chk.weights; std::sort(ws.begin(), ws.end());
        if (chk.total != ref.total) { v.ok = false; v.cls = "not-minimum"; v.msg = who + " basis weight " + vg::fmt_w(chk.total) + ", optimum " + vg::fmt_w(ref.total); return v; }
        else if (ws != ref.weights) { v.ok = false; v.cls = "weight-vector"; v.msg = who + ": sorted cycle weights " + vb::vec_str(ws) + " differ from reference " + vb::vec_str(ref.weights); return v; }
    }
    return v;
}

static std::string cs_of(const vg::EdgeList &el, const std::vector<double> &w, int var, int P, int lm, const std::string &choices) {
    return vg::case_string(el, w, std::string("variant=") + mv_name(var) + ";P=" + std::to_string(P) + ";layouts=" + std::to_string(lm) + (g_subcomm ? ";subcomm=" + std::to_string(g_subcomm) : std::string()) + ";choices=" + choices);
}

static void explore_input(vr::Runner &R, const Cfg &cfg, const vg::EdgeList &el, const std::vector<double> &w, const std::vector<uint64_t> &cyc, int dim) {
    vg::RefResult<double> ref = vg::reference_mcb<double>(cyc, w, dim); std::sort(ref.weights.begin(), ref.weights.end());
    for (int var : cfg.variants) for (int P : cfg.Ps) {
        int reported = 0; uint64_t coll = 0, maxout = 0, multi = 0; int ldev = 0;
        auto one = [&]() {
            vx::Explorer &E = vx::explorer();
            std::string pfx; for (size_t i = 0; i < E.prefix.size(); ++i) pfx += (i ? "." : "") + std::to_string(E.prefix[i]);
            R.crumb_text(cs_of(el, w, var, P, cfg.layout_mode, pfx + "+"));
            Verdict v = run_and_check(cfg, var, P, el, w, dim, ref, false, &coll, &maxout, &multi, &ldev);
            R.crumb_done();
            if (v.cls == "deadlock") R.count(C_DEADLOCKS);
            std::vector<vx::Point> tr = E.trace; std::vector<int> seq; for (auto &p : tr) seq.push_back(p.chosen);
            bool later_all_default = true; for (size_t i = (size_t) P; i < tr.size(); ++i) if (tr[i].chosen) later_all_default = false;
            if (cfg.baton_rev && v.ok && later_all_default) {
                // independence of the baton order: identical observations under the reversed order. Only executions whose choices
                // after the P layout choices are all default are compared: the explorer's choice sequence interleaves the ranks'
                // own choice points in baton order, so a non-default choice would land on a different point under the other order.
                E.begin(seq, {});
                Verdict v2 = run_and_check(cfg, var, P, el, w, dim, ref, true, nullptr, nullptr, nullptr, nullptr);
                if (!v2.ok) { fprintf(stderr, "HARNESS-ERROR observation depends on the baton order (%s)\n", cs_of(el, w, var, P, cfg.layout_mode, vx::Explorer::str(tr)).c_str()); exit(2); }
                E.trace = tr;
            }
            if (!v.ok && reported++ < 3) {
                E.begin(seq, tr);
                Verdict v2 = run_and_check(cfg, var, P, el, w, dim, ref, false, nullptr, nullptr, nullptr, nullptr);
                bool same = !v2.ok && v2.cls == v.cls && E.trace.size() == tr.size();
                E.trace = tr;
                if (!same) { fprintf(stderr, "HARNESS-ERROR execution did not reproduce on replay (%s)\n", cs_of(el, w, var, P, cfg.layout_mode, vx::Explorer::str(tr)).c_str()); exit(2); }
                int dev = 0; for (auto &p : tr) if (p.kind == vx::ORDER && p.chosen) ++dev;
                R.violation({mv_name(var), v.cls, cs_of(el, w, var, P, cfg.layout_mode, vx::Explorer::str(tr)), v.msg + " [" + std::to_string(dev) + " deviation(s) from the default layout/schedule]"});
            }
            return true;
        };
        vx::DfsStats st = vx::dfs(one, 0, cfg.max_exec, cfg.outcome_bound);
        if (cfg.bound > 0 && reported == 0) st = vx::dfs(one, cfg.bound, cfg.max_exec, cfg.outcome_bound);
        R.count(C_EXEC, st.executions); R.count(C_POINTS, st.choice_points); R.count(C_STATES, st.choice_points + st.executions);
        R.count(C_COLLECTIVES, coll); R.count(C_MULTI, multi); R.count(C_PRUNED, st.pruned_by_bound); R.count(C_LAYOUT_DEV, ldev);
        if (st.capped) R.count(C_CAPPED_INPUTS);
        if (maxout > R.counter(C_MAXOUT)) R.sh->counters[C_MAXOUT].store(maxout);
        if (st.max_trace > R.counter(C_MAXTRACE)) R.sh->counters[C_MAXTRACE].store(st.max_trace);
    }
}

int main(int argc, char **argv) {
    vr::Args A(argc, argv);
#ifdef PARMCB_LOGGING
    std::cout.setstate(std::ios_base::badbit);      // built against a config.hpp with PARMCB_LOGGING on: the library chats on std::cout (harness output uses stdio)
#endif
    Cfg cfg;
    for (auto &s : vr::split(A.get("variants", "signed_mpi,fvs_mpi,fvs_tbb_mpi,iso_mpi,iso_tbb_mpi"), ',')) cfg.variants.push_back(mv_by_name(s));
    for (auto &s : vr::split(A.get("P", "1,2,3"), ',')) cfg.Ps.push_back(atoi(s.c_str()));
    cfg.bound = (int) A.geti("bound", 1);
    cfg.layout_mode = (int) A.geti("layouts", 0);
    cfg.subcomm = (int) A.geti("subcomm", 0); g_subcomm = cfg.subcomm;
    cfg.max_exec = (uint64_t) A.geti("max-exec", 500000);
    cfg.baton_rev = A.has("baton-rev");
    if (A.has("outcome-bound")) cfg.outcome_bound = (int) A.geti("outcome-bound", 1);
    vr::Runner R;
    R.nworkers = (int) A.geti("workers", 16);
    R.hang_limit_s = 600;
    if (A.has("deadline-s")) R.deadline_abs = vr::now_s() + A.getd("deadline-s", 0);
    vx::stop_hook() = [&R]() { return R.expired(); };

    if (A.has("replay-case")) {
        auto pc = vg::parse_case(A.get("replay-case"));
        int var = mv_by_name(pc.get("variant")); int P = atoi(pc.get("P", "2").c_str());
        cfg.layout_mode = atoi(pc.get("layouts", "0").c_str());
        cfg.subcomm = g_subcomm = atoi(pc.get("subcomm", "0").c_str());
        int dim = vg::cycle_space_dim(pc.g);
        auto cyc = vg::all_simple_cycles(pc.g);
        auto ref = vg::reference_mcb<double>(cyc, pc.w, dim); std::sort(ref.weights.begin(), ref.weights.end());
        std::vector<int> seq; for (auto &t : vr::split(pc.get("choices"), '.')) if (!t.empty() && t.back() != '+') seq.push_back(atoi(t.c_str()));
        vx::explorer().begin(seq, {});
        Verdict v = run_and_check(cfg, var, P, pc.g, pc.w, dim, ref, false, nullptr, nullptr, nullptr, nullptr, true);
        vx::explorer().end();
        printf("choices made: %s\nfinal state: %s\nreference total=%s weights=%s\n", vx::Explorer::str(vx::explorer().trace).c_str(), g_last_state.c_str(), vg::fmt_w(ref.total).c_str(), vb::vec_str(ref.weights).c_str());
        if (!v.ok) { printf("{\"class\":\"%s\",\"msg\":\"%s\"}\nREPLAY-VIOLATION\n", v.cls.c_str(), vr::json_escape(v.msg).c_str()); return 1; }
        printf("REPLAY-OK\n"); return 0;
    }

    std::vector<double> alpha = vg::alphabet(A.get("alpha", "A2"));
    int n = (int) A.geti("n", 0);
    std::vector<std::string> fams;
    if (A.has("families")) fams = vr::split(A.get("families"), ',');
    const uint64_t relabel_n = (uint64_t) std::max<long>(1, A.geti("relabel", 1));     // every family additionally under relabel_n - 1 renumberings of its vertices (fixed menu)
    uint64_t ngraphs = fams.empty() ? vg::num_graphs(n) : fams.size() * relabel_n;
    // dense graphs have many weightings: a unit is (graph, chunk of weightings) so that one graph is spread over all workers
    uint64_t wchunks = (uint64_t) A.geti("wchunks", 1);
    uint64_t total_units = ngraphs * wchunks;
    uint64_t seed = (uint64_t) A.geti("seed", 0);
    int min_dim = (int) A.geti("min-dim", 0), min_m = (int) A.geti("min-m", 0), max_m = (int) A.geti("max-m", 62);
    int orient_mode = (int) A.geti("orient", 0);
    vg::plus_heavy_k2() = A.has("plus-heavy-k2");
    vg::edge_order_mode() = (int) A.geti("eorder", 0);
    auto unit_graph0 = [&](uint64_t u) { uint64_t uu = ((u / wchunks) + seed) % ngraphs; return fams.empty() ? vg::graph_from_mask(n, uu) : vg::relabel(vg::family(fams[uu / relabel_n]), (int) (uu % relabel_n)); };
    auto unit_graph = [&](uint64_t u) { vg::EdgeList g = unit_graph0(u); vg::order_edges(g); vg::orient(g, orient_mode); if (vg::plus_heavy_k2()) { g.e.push_back({g.n, g.n + 1}); g.n += 2; } return g; };
    auto describe = [&](uint64_t u, uint64_t sub, uint64_t) { vg::EdgeList el = unit_graph(u); std::vector<double> w; vg::weighting(alpha, el.m(), sub, w); return std::make_pair(std::string("mpi entry point"), vg::case_string(el, w)); };
    auto work = [&](uint64_t u, uint64_t start_sub) {
        vg::EdgeList el = unit_graph(u);
        int dim = vg::cycle_space_dim(el);
        if (dim < min_dim || el.m() < min_m || el.m() > max_m) return;
        auto cyc = vg::all_simple_cycles(el);
        uint64_t nw = vg::num_weightings(alpha, el.m());
        std::vector<double> w;
        for (uint64_t s = start_sub; s < nw; ++s) { if (R.expired()) break;
            if (s % wchunks != u % wchunks) continue;
            vg::weighting(alpha, el.m(), s, w);
            R.sh->crumbs[R.worker_id].sub.store(s);
            R.count(C_INPUTS); if (dim >= 1) R.count(C_NONTRIV);
            explore_input(R, cfg, el, w, cyc, dim);
        }
    };
    double t0 = vr::now_s();
    A.has("out"); A.require_all_used();
    auto res = R.run(total_units, work, describe);
    double wall = vr::now_s() - t0;
    std::vector<std::string> samples;
    for (uint64_t u : {total_units - 1, total_units / 2 + 1}) { if (u >= total_units) continue; vg::EdgeList el = unit_graph(u); std::vector<double> w; vg::weighting(alpha, el.m(), vg::num_weightings(alpha, el.m()) / 2, w);
        samples.push_back(cs_of(el, w, cfg.variants[0], cfg.Ps.back(), cfg.layout_mode, "0.1.0 (rank 0 identity layout, rank 1 reversed layout, rank 2 identity, defaults afterwards)")); }
    FILE *o = A.has("out") ? fopen(A.get("out").c_str(), "w") : stdout;
    fprintf(o, "{\"harness\":\"sched_mpi\",\"evaluations\":%" PRIu64 ",\"inputs\":%" PRIu64 ",\"distinct_nontrivial\":%" PRIu64 ",\"schedules\":%" PRIu64 ",\"states\":%" PRIu64 ",\"transitions\":%" PRIu64
            ",\"collectives_executed\":%" PRIu64 ",\"reduce_max_outcomes\":%" PRIu64 ",\"reduce_multi_outcome_calls\":%" PRIu64 ",\"executions_with_nonidentity_layout\":%" PRIu64 ",\"deadlock_states\":%" PRIu64
            ",\"max_choice_points_in_one_execution\":%" PRIu64 ",\"inputs_hitting_execution_cap\":%" PRIu64 ",\"alternatives_pruned_by_deviation_bound\":%" PRIu64 ",\"deviation_bound\":%d,\"outcome_bound\":%d,\"layout_mode\":%d"
            ",\"units_total\":%" PRIu64 ",\"units_done\":%" PRIu64 ",\"capped\":%s,\"crashes\":%" PRIu64 ",\"hangs\":%" PRIu64 ",\"nviol\":%" PRIu64 ",\"wall_s\":%.3f,\n\"samples\":[",
            R.counter(C_EXEC), R.counter(C_INPUTS), R.counter(C_EXEC), R.counter(C_EXEC), R.counter(C_STATES), R.counter(C_POINTS), R.counter(C_COLLECTIVES), R.counter(C_MAXOUT), R.counter(C_MULTI),
            R.counter(C_LAYOUT_DEV), R.counter(C_DEADLOCKS), R.counter(C_MAXTRACE), R.counter(C_CAPPED_INPUTS), R.counter(C_PRUNED), cfg.bound, cfg.outcome_bound, cfg.layout_mode,
            res.units_total, res.units_done, (res.capped || R.counter(C_CAPPED_INPUTS)) ? "true" : "false", res.crashes, res.hangs, res.nviol, wall);
    for (size_t i = 0; i < samples.size(); ++i) fprintf(o, "%s\"%s\"", i ? "," : "", vr::json_escape(samples[i]).c_str());
    fprintf(o, "],\n\"violations\":[");
    for (size_t i = 0; i < res.violation_lines.size(); ++i) fprintf(o, "%s\n%s", i ? "," : "", res.violation_lines[i].c_str());
    fprintf(o, "]}\n");
    if (o != stdout) fclose(o);
    return 0;
}
