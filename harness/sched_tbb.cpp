#include <iostream>
// C03 harness (flavour S): the unmodified parmcb TBB entry points run on top of the vtbb shim.
//   explore mode : for every input, every schedule within the deviation bound (all parallel_reduce outcomes always)
//   thread mode  : (-DVTBB_THREADS, built with -fsanitize=thread) one run per input, one thread per leaf
#define VH_TBB 1
#include <memory>
#if !defined(VTBB_THREADS) && !defined(__SANITIZE_ADDRESS__) && !defined(__SANITIZE_THREAD__)
#define VH_ARENA 1
#include "common/ptrorder.hpp"
#endif
#include "common/runner.hpp"
#include "common/graphs.hpp"
#include "common/bgl.hpp"
#include "common/bigref.hpp"
#include "common/explore.hpp"
#include "common/variants.hpp"

enum Ctr { C_EXEC = 0, C_INPUTS, C_NONTRIV, C_POINTS, C_STATES, C_MAXOUT, C_MULTI, C_REDUCE_CALLS, C_FOR_CALLS, C_BLOCK, C_IMPURE, C_MAXTRACE, C_CAPPED_INPUTS, C_PRUNED, C_BODY_RUNS, C_MERGES, C_MULTILEAF, C_DIRECT_EXEC, C_IMPURE_INPUTS, C_IDLEAF };

typedef double W;
typedef vb::Built<W> B;

struct Cfg {
    std::vector<int> variants;       // SIGNED_TBB, FVS_TBB, ISO_TBB
    std::vector<long> ks;            // empty => exact entry points; otherwise approximate with these k
    int bound = 1;
    int direct_bound = 2;            // deviation bound of the direct-execution pass over parallel_reduce (-1 = skip the pass)
    int unbounded_dim = -1;          // inputs with cycle space dimension <= this are explored with no deviation bound
    uint64_t max_exec = 2000000;
};

struct Verdict { bool ok = true; std::string cls, msg; };
static int g_big_above = 62;      // graphs with more edges than this take the --big path (dynamic bitsets, Horton reference)
static double g_big_opt = -1;     // --big: optimum of the current input by the Horton reference (exact variants only)

static Verdict run_and_check(int var, long k, B &b, const vg::EdgeList &el, const std::vector<double> &w, int dim,
        const vg::RefResult<double> &ref, bool verbose = false) {
    Verdict v;
    vv::CycleList<W> cycles;
    W ret = 0;
#ifdef VH_ARENA
    // the approximation algorithms build a private spanner graph on the heap; the relative address order of its edge nodes
    // (it decides tie-breaking inside the exact phase) is owned by the explorer: ascending (default) or descending
    if (k > 0) { vptr::node_size = sizeof(std::_List_node<typename B::Graph::EdgeContainer::value_type>); vptr::arena_begin(vx::choose(2, vx::ORDER) == 1); }
#endif
    try { ret = k > 0 ? vv::run_approx<W>(var, b, (std::size_t) k, cycles) : vv::run_exact<W>(var, b, cycles); }
    catch (std::exception &e) { v.ok = false; v.cls = "exception"; v.msg = e.what(); }
    catch (...) { v.ok = false; v.cls = "exception"; v.msg = "unknown exception"; }
#ifdef VH_ARENA
    vptr::arena_end();
    if (vptr::arena_exhausted) { fprintf(stderr, "HARNESS-ERROR pointer-order arena exhausted\n"); exit(2); }
#endif
    if (!v.ok) return v;
    if (el.m() > g_big_above) {
        // graphs beyond the 64-bit edge masks (--big): dynamic-bitset validator; oracle = the output is a cycle basis of the
        // caller's graph and the returned value is its weight (no optimum is computed at this size)
        std::vector<std::vector<int>> ids;
        for (auto &c : cycles) { std::vector<int> x; for (auto &e : c) { auto it = b.by_prop.find(e.get_property()); x.push_back(it == b.by_prop.end() ? -1 : it->second); } ids.push_back(x); }
        auto big = vbig::check_cycles(el, w, ids, dim);
        if (verbose) printf("returned=%s emitted_total=%s count=%zu %s\n", vg::fmt_w(ret).c_str(), vg::fmt_w(big.total).c_str(), ids.size(), big.ok ? "valid" : big.msg.c_str());
        if (!big.ok) { v.ok = false; v.cls = big.cls; v.msg = big.msg; return v; }
        if (ret != big.total) { v.ok = false; v.cls = "return-mismatch"; v.msg = "returned " + vg::fmt_w(ret) + " but emitted cycles weigh " + vg::fmt_w(big.total); return v; }
        if (k <= 0 && g_big_opt >= 0 && big.total != g_big_opt) { v.ok = false; v.cls = "not-minimum"; v.msg = "basis weight " + vg::fmt_w(big.total) + ", optimum (Horton reference) " + vg::fmt_w(g_big_opt); }
        return v;
    }
    auto chk = vb::check_cycle_set<W>(b, w, cycles, dim);
    if (verbose) printf("returned=%s emitted_total=%s weights=%s count=%zu %s\n", vg::fmt_w(ret).c_str(), vg::fmt_w(chk.total).c_str(), vb::vec_str(chk.weights).c_str(), chk.masks.size(), chk.ok ? "valid" : chk.msg.c_str());
    if (!chk.ok) { v.ok = false; v.cls = chk.cls; v.msg = chk.msg; return v; }
    if (ret != chk.total) { v.ok = false; v.cls = "return-mismatch"; v.msg = "returned " + vg::fmt_w(ret) + " but emitted cycles weigh " + vg::fmt_w(chk.total); return v; }
    if (k <= 0) {
        std::vector<double> ws = chk.weights; std::sort(ws.begin(), ws.end());
        if (chk.total != ref.total) { v.ok = false; v.cls = "not-minimum"; v.msg = "basis weight " + vg::fmt_w(chk.total) + ", optimum " + vg::fmt_w(ref.total); }
        else if (ws != ref.weights) { v.ok = false; v.cls = "weight-vector"; v.msg = "sorted cycle weights " + vb::vec_str(ws) + " differ from reference " + vb::vec_str(ref.weights); }
    } else {
        if (chk.total > (2 * k - 1) * ref.total) { v.ok = false; v.cls = "ratio-exceeded"; v.msg = "basis weight " + vg::fmt_w(chk.total) + " > (2k-1) x optimum " + vg::fmt_w(ref.total); }
        else if (k == 1 && chk.total != ref.total) { v.ok = false; v.cls = "k1-not-minimum"; v.msg = "k=1 weight " + vg::fmt_w(chk.total) + ", optimum " + vg::fmt_w(ref.total); }
    }
    return v;
}

static std::string cs_of(const vg::EdgeList &el, const std::vector<double> &w, int var, long k, const std::string &choices) {
    return vg::case_string(el, w, std::string("variant=") + (k > 0 ? vv::approx_name(var) : vv::variant_name(var)) + (k > 0 ? ";k=" + std::to_string(k) : "") + ";choices=" + choices);
}

static void explore_input(vr::Runner &R, const Cfg &cfg, const vg::EdgeList &el, const std::vector<double> &w,
        const std::vector<uint64_t> &cyc, int dim, B &b) {
    b.set_weights(w);
    vg::RefResult<double> ref; if (el.m() <= g_big_above) { ref = vg::reference_mcb<double>(cyc, w, dim); std::sort(ref.weights.begin(), ref.weights.end()); }
    g_big_opt = (el.m() > g_big_above && cfg.ks.empty()) ? vbig::horton_reference(el, w).total : -1;
    std::vector<long> ks = cfg.ks.empty() ? std::vector<long>{0} : cfg.ks;
    for (long k : ks) for (int var : cfg.variants) {
        const char *site = k > 0 ? vv::approx_name(var) : vv::variant_name(var);
#ifdef VTBB_THREADS
        R.crumb_text(cs_of(el, w, var, k, "threads"));
        Verdict v = run_and_check(var, k, b, el, w, dim, ref);
        R.crumb_done();
        R.count(C_EXEC);
        if (!v.ok) R.violation({site, v.cls, cs_of(el, w, var, k, "threads"), v.msg});
#else
        int bound = dim <= cfg.unbounded_dim ? 1000000 : cfg.bound;
        int reported = 0;
        bool impure_input = false;
        std::string mode_tag = "dp";
        tbb::vtbb_stats() = tbb::VtbbStats();
        auto one = [&]() {
            vx::Explorer &E = vx::explorer();
            std::string pfx; for (size_t i = 0; i < E.prefix.size(); ++i) pfx += (i ? "." : "") + std::to_string(E.prefix[i]);
            R.crumb_text(cs_of(el, w, var, k, pfx + "+"));
            uint64_t impure_before = tbb::vtbb_stats().impure_bodies;
            Verdict v = run_and_check(var, k, b, el, w, dim, ref);
            R.crumb_done();
            if (tbb::vtbb_reduce_mode() == 0 && tbb::vtbb_stats().impure_bodies != impure_before) {
                // a reduce body returned different values for identical arguments: the per-call enumeration is not a set of
                // real executions for this input, so its verdict is discarded; the direct-execution pass decides instead
                impure_input = true;
                return false;      // stop the DP pass for this input
            }
            if (!v.ok && reported++ < 3) {
                // replay once more before reporting: the same choice sequence must reproduce the same verdict
                std::vector<vx::Point> tr = E.trace; std::vector<int> seq; for (auto &p : tr) seq.push_back(p.chosen);
                E.begin(seq, tr);
                Verdict v2 = run_and_check(var, k, b, el, w, dim, ref);
                bool same = !v2.ok && v2.cls == v.cls && E.trace.size() == tr.size();
                E.trace = tr;   // restore for the DFS driver
                if (!same) { fprintf(stderr, "HARNESS-ERROR schedule did not reproduce on replay (%s)\n", cs_of(el, w, var, k, vx::Explorer::str(tr)).c_str()); exit(2); }
                int dev = 0; for (auto &p : tr) if (p.kind == vx::ORDER && p.chosen) ++dev;
                R.violation({site, v.cls, cs_of(el, w, var, k, vx::Explorer::str(tr)) + ";reduce=" + mode_tag, v.msg + " [schedule with " + std::to_string(dev) + " deviation(s)]"});
            }
            return true;
        };
        // pass A: parallel_reduce enumerated completely per call (DP); iterate the bound: 0 first, then the tier's bound
        tbb::vtbb_reduce_mode() = 0; mode_tag = "dp";
        vx::DfsStats st = vx::dfs(one, 0, cfg.max_exec);
        if (bound > 0 && reported == 0) { st = vx::dfs(one, bound, cfg.max_exec); }
        // pass B: parallel_reduce executed directly under explorer-chosen schedules (sound for bodies with side effects)
        if ((cfg.direct_bound >= 0 || impure_input) && reported == 0) {
            tbb::vtbb_reduce_mode() = 1; mode_tag = "direct";
            int db = dim <= cfg.unbounded_dim ? std::max(cfg.direct_bound, 3) : cfg.direct_bound;
            if (impure_input) { db = std::max(db, 2); R.count(C_IMPURE_INPUTS); }
            vx::DfsStats st2 = vx::dfs(one, db, cfg.max_exec);
            st.executions += st2.executions; st.choice_points += st2.choice_points; st.max_trace = std::max(st.max_trace, st2.max_trace);
            st.pruned_by_bound += st2.pruned_by_bound; st.capped |= st2.capped;
            R.count(C_DIRECT_EXEC, st2.executions);
            tbb::vtbb_reduce_mode() = 0;
        }
        R.count(C_EXEC, st.executions); R.count(C_POINTS, st.choice_points); R.count(C_STATES, st.choice_points + st.executions);
        if (st.capped) R.count(C_CAPPED_INPUTS);
        R.count(C_PRUNED, st.pruned_by_bound);
        auto &S = tbb::vtbb_stats();
        R.count(C_REDUCE_CALLS, S.reduce_calls); R.count(C_FOR_CALLS, S.for_calls); R.count(C_BLOCK, S.reduce_block_mode_calls);
        R.count(C_MULTI, S.reduce_multi_outcome_calls); R.count(C_IMPURE, S.impure_bodies); R.count(C_BODY_RUNS, S.reduce_body_runs); R.count(C_MERGES, S.merges); R.count(C_IDLEAF, S.reduce_identity_leaf_calls);
        if (st.executions > 1) R.count(C_MULTILEAF, st.executions);
        // max counters (racy max is fine: monotone updates)
        uint64_t cur = R.counter(C_MAXOUT); if (S.reduce_max_outcomes > cur) R.sh->counters[C_MAXOUT].store(S.reduce_max_outcomes);
        cur = R.counter(C_MAXTRACE); if (st.max_trace > cur) R.sh->counters[C_MAXTRACE].store(st.max_trace);
#endif
    }
}

int main(int argc, char **argv) {
    vr::Args A(argc, argv);
#ifdef PARMCB_LOGGING
    std::cout.setstate(std::ios_base::badbit);      // built against a config.hpp with PARMCB_LOGGING on: the library chats on std::cout (harness output uses stdio)
#endif
    Cfg cfg;
    cfg.variants = vv::parse_variants(A.get("variants", "signed_tbb,fvs_tbb,iso_tbb"));
    if (A.has("ks")) for (auto &s : vr::split(A.get("ks"), ',')) cfg.ks.push_back(atol(s.c_str()));
    cfg.bound = (int) A.geti("bound", 1);
    cfg.direct_bound = (int) A.geti("direct-bound", 2);
    cfg.unbounded_dim = (int) A.geti("unbounded-dim", -1);
    cfg.max_exec = (uint64_t) A.geti("max-exec", 2000000);
    tbb::vtbb_max_cells() = (int) A.geti("max-cells", 12);
    vr::Runner R;
    R.nworkers = (int) A.geti("workers", 16);
    R.hang_limit_s = 600;
    if (A.has("deadline-s")) R.deadline_abs = vr::now_s() + A.getd("deadline-s", 0);
    vx::stop_hook() = [&R]() { return R.expired(); };

    vv::out_kind() = (int) A.geti("outiter", 0);
    vv::wmap_kind() = (int) A.geti("wmap", 0);        // 1: exterior weight map, decoy values in the interior property     // 1: positional output iterator into a pre-sized vector
    if (A.has("replay-case")) {
        auto pc = vg::parse_case(A.get("replay-case"));
        int var = vv::variant_by_short(pc.get("variant"));
        long k = pc.get("k").empty() ? 0 : atol(pc.get("k").c_str());
        int dim = vg::cycle_space_dim(pc.g);
        if (pc.g.m() > 40) g_big_above = 40;      // replay: the all-cycles oracle only where it is cheap
        std::vector<uint64_t> cyc; if (pc.g.m() <= g_big_above) cyc = vg::all_simple_cycles(pc.g);
        auto ref = vg::reference_mcb<double>(cyc, pc.w, dim); std::sort(ref.weights.begin(), ref.weights.end());
        B b(pc.g, pc.w);
        std::vector<int> seq; for (auto &t : vr::split(pc.get("choices"), '.')) if (!t.empty() && t != "threads" && t.back() != '+') seq.push_back(atoi(t.c_str()));
        tbb::vtbb_reduce_mode() = pc.get("reduce") == "direct" ? 1 : 0;
        vx::explorer().begin(seq, {});
        Verdict v = run_and_check(var, k, b, pc.g, pc.w, dim, ref, true);
        vx::explorer().end();
        printf("choices made: %s\nreference total=%s weights=%s\n", vx::Explorer::str(vx::explorer().trace).c_str(), vg::fmt_w(ref.total).c_str(), vb::vec_str(ref.weights).c_str());
        if (!v.ok) { printf("{\"class\":\"%s\",\"msg\":\"%s\"}\nREPLAY-VIOLATION\n", v.cls.c_str(), vr::json_escape(v.msg).c_str()); return 1; }
        printf("REPLAY-OK\n"); return 0;
    }

    std::vector<double> alpha = vg::alphabet(A.get("alpha", "A2"));
    int n = (int) A.geti("n", 0);
    std::vector<std::string> fams;
    if (A.has("families")) fams = vr::split(A.get("families"), ',');
    const uint64_t relabel_n = (uint64_t) std::max<long>(1, A.geti("relabel", 1));     // every family additionally under relabel_n - 1 renumberings of its vertices (fixed menu)
    std::unique_ptr<vg::BlobUniverse> blob;
    if (A.has("grammar")) { auto t = vr::split(A.get("grammar"), ':'); blob.reset(new vg::BlobUniverse(atoi(t[1].c_str()), atoi(t[2].c_str()))); }
    uint64_t ngraphs = blob ? blob->size() : fams.empty() ? vg::num_graphs(n) : fams.size() * relabel_n;
    uint64_t wchunks = (uint64_t) A.geti("wchunks", 1);      // a unit is (graph, residue class of weightings)
    uint64_t total_units = ngraphs * wchunks;
    uint64_t seed = (uint64_t) A.geti("seed", 0);
    int min_dim = (int) A.geti("min-dim", 0), min_m = (int) A.geti("min-m", 0), max_m = (int) A.geti("max-m", A.has("big") ? (1 << 30) : 62);
    if (A.has("big-above")) g_big_above = (int) A.geti("big-above", 62);
    int orient_mode = (int) A.geti("orient", 0);
    vg::plus_heavy_k2() = A.has("plus-heavy-k2");
    vg::edge_order_mode() = (int) A.geti("eorder", 0);
    auto unit_graph0 = [&](uint64_t u) { uint64_t uu = ((u / wchunks) + seed) % ngraphs; return blob ? blob->build(uu) : fams.empty() ? vg::graph_from_mask(n, uu) : vg::relabel(vg::family(fams[uu / relabel_n]), (int) (uu % relabel_n)); };
    auto unit_graph = [&](uint64_t u) { vg::EdgeList g = unit_graph0(u); vg::order_edges(g); vg::orient(g, orient_mode); if (vg::plus_heavy_k2()) { g.e.push_back({g.n, g.n + 1}); g.n += 2; } return g; };
    auto describe = [&](uint64_t u, uint64_t sub, uint64_t) {
        vg::EdgeList el = unit_graph(u); std::vector<double> w; vg::weighting(alpha, el.m(), sub, w);
        return std::make_pair(std::string("tbb entry point"), vg::case_string(el, w));
    };
    auto work = [&](uint64_t u, uint64_t start_sub) {
        vg::EdgeList el = unit_graph(u);
        int dim = vg::cycle_space_dim(el);
        if (dim < min_dim || el.m() < min_m || el.m() > max_m) return;
        std::vector<uint64_t> cyc; if (el.m() <= g_big_above) cyc = vg::all_simple_cycles(el);
        uint64_t nw = vg::num_weightings(alpha, el.m());
        std::vector<double> w; vg::weighting(alpha, el.m(), 0, w);
        B b(el, w);
        for (uint64_t s = start_sub; s < nw; ++s) { if (R.expired()) break;
            if (s % wchunks != u % wchunks) continue;
            vg::weighting(alpha, el.m(), s, w);
            R.sh->crumbs[R.worker_id].sub.store(s);
            R.count(C_INPUTS); if (dim >= 1) R.count(C_NONTRIV);
            explore_input(R, cfg, el, w, cyc, dim, b);
        }
    };
    double t0 = vr::now_s();
    A.has("out"); A.require_all_used();
    auto res = R.run(total_units, work, describe);
    double wall = vr::now_s() - t0;
    std::vector<std::string> samples;
    for (uint64_t u : {total_units - 1, total_units / 2 + 1}) { if (u >= total_units) continue; vg::EdgeList el = unit_graph(u); std::vector<double> w; vg::weighting(alpha, el.m(), vg::num_weightings(alpha, el.m()) / 2, w);
        samples.push_back(cs_of(el, w, cfg.variants[0], cfg.ks.empty() ? 0 : cfg.ks[0], "0.0.1.0 (example choice sequence: default, default, first deviation, default)")); }
    FILE *o = A.has("out") ? fopen(A.get("out").c_str(), "w") : stdout;
    fprintf(o, "{\"harness\":\"sched_tbb\",\"evaluations\":%" PRIu64 ",\"inputs\":%" PRIu64 ",\"distinct_nontrivial\":%" PRIu64 ",\"schedules\":%" PRIu64
            ",\"states\":%" PRIu64 ",\"transitions\":%" PRIu64 ",\"reduce_calls\":%" PRIu64 ",\"reduce_body_runs\":%" PRIu64 ",\"reduce_max_outcomes\":%" PRIu64 ",\"reduce_multi_outcome_calls\":%" PRIu64
            ",\"reduce_block_mode_calls\":%" PRIu64 ",\"for_calls\":%" PRIu64 ",\"push_merges\":%" PRIu64 ",\"max_choice_points_in_one_execution\":%" PRIu64 ",\"inputs_hitting_execution_cap\":%" PRIu64
            ",\"alternatives_pruned_by_deviation_bound\":%" PRIu64 ",\"direct_mode_schedules\":%" PRIu64 ",\"reduce_bodies_found_impure\":%" PRIu64 ",\"inputs_decided_by_direct_mode_only\":%" PRIu64 ",\"reduce_calls_with_identity_leaf\":%" PRIu64 ",\"deviation_bound\":%d,\"direct_deviation_bound\":%d,\"unbounded_for_dim_le\":%d"
            ",\"units_total\":%" PRIu64 ",\"units_done\":%" PRIu64 ",\"capped\":%s,\"crashes\":%" PRIu64 ",\"hangs\":%" PRIu64 ",\"nviol\":%" PRIu64 ",\"wall_s\":%.3f,\n\"samples\":[",
            R.counter(C_EXEC), R.counter(C_INPUTS), R.counter(C_MULTILEAF), R.counter(C_EXEC), R.counter(C_STATES), R.counter(C_POINTS), R.counter(C_REDUCE_CALLS), R.counter(C_BODY_RUNS),
            R.counter(C_MAXOUT), R.counter(C_MULTI), R.counter(C_BLOCK), R.counter(C_FOR_CALLS), R.counter(C_MERGES), R.counter(C_MAXTRACE), R.counter(C_CAPPED_INPUTS), R.counter(C_PRUNED), R.counter(C_DIRECT_EXEC), R.counter(C_IMPURE), R.counter(C_IMPURE_INPUTS), R.counter(C_IDLEAF),
            cfg.bound, cfg.direct_bound, cfg.unbounded_dim, res.units_total, res.units_done, (res.capped || R.counter(C_CAPPED_INPUTS)) ? "true" : "false", res.crashes, res.hangs, res.nviol, wall);
    for (size_t i = 0; i < samples.size(); ++i) fprintf(o, "%s\"%s\"", i ? "," : "", vr::json_escape(samples[i]).c_str());
    fprintf(o, "],\n\"violations\":[");
    for (size_t i = 0; i < res.violation_lines.size(); ++i) fprintf(o, "%s\n%s", i ? "," : "", res.violation_lines[i].c_str());
    fprintf(o, "]}\n");
    if (o != stdout) fclose(o);
    return 0;
}
