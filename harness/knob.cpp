// C20 harness (flavour H, real oneTBB).
//  mode lib : every sequence of up to L calls set_global_tbb_concurrency(n), n in {1,2,3,5,16,hw+1,2hw+9} (hw = hardware threads TBB reports), against the reference
//             automaton "last value wins"; after each call the allowed parallelism is read back (a parallel_for is run in
//             between so that the scheduler is active), and after the last call a library entry point
//             (mcb_sva_signed_tbb on K4) is run and the value read again.
//  mode demo: the demo source (mcb-dimacs.cpp or approx-mcb-dimacs.cpp, included with main renamed) is run in-process for
//             every combination of algorithm x verbose x printcycles x cores with --parallel=true; the allowed
//             parallelism is sampled at the moment the demo prints its "Using ..._TBB" line, i.e. immediately before the
//             library call.
#include "common/runner.hpp"
#include <tbb/tbb.h>
#include <atomic>
#include <iostream>
#include <mutex>
#include <set>
#include <sstream>
#include <streambuf>
#include <thread>

static long g_sampled = -1;
static std::string g_using_line;
struct SamplingBuf : std::streambuf {
    std::string line, all;
    int overflow(int c) override {
        if (c == EOF) return c;
        all += (char) c;
        if (c == '\n') {
            if (line.find("Using ") == 0 && line.find("_TBB") != std::string::npos) {
                g_sampled = (long) tbb::global_control::active_value(tbb::global_control::max_allowed_parallelism);
                g_using_line = line;
            }
            line.clear();
        } else line += (char) c;
        return c;
    }
};

#ifdef KNOB_DEMO
#define main demo_main
#include KNOB_DEMO
#undef main
#else
#include <boost/graph/adjacency_list.hpp>
#include <parmcb/config.hpp>
#include <parmcb/parmcb.hpp>
#include <parmcb/util.hpp>
#include <list>
#endif

enum { C_EVAL = 0, C_NONTRIV, C_STATES, C_TRANS, C_OVER };
// values of n: small ones, 16, and two values ABOVE the number of hardware threads TBB reports (a limit larger than the machine is
// legal and is what active_value must then report); filled in main()
static int NS[7] = {1, 2, 3, 5, 16, 17, 41};
static int NV = 7;       // --nv 5: the first five values only
#ifndef KNOB_DEMO
// call sites: this translation unit and a second one (knob_tu2.cpp); both expand the header's inline function
void knob_set_from_tu2(std::size_t n);
__attribute__((flatten)) static void knob_set_from_tu1(std::size_t n) { parmcb::set_global_tbb_concurrency(n); }
// the same call with the number held in other integral types (what a caller that parsed it from a command line has)
__attribute__((flatten)) static void knob_set_int(int n) { parmcb::set_global_tbb_concurrency(n); }
__attribute__((flatten)) static void knob_set_unsigned(unsigned n) { parmcb::set_global_tbb_concurrency(n); }
#endif

static long active() { return (long) tbb::global_control::active_value(tbb::global_control::max_allowed_parallelism); }

static int distinct_threads() {
    std::mutex mu; std::set<std::thread::id> ids;
    tbb::parallel_for(tbb::blocked_range<std::size_t>(0, 4000, 1), [&](const tbb::blocked_range<std::size_t> &r) {
        volatile double x = 1; for (std::size_t i = r.begin(); i != r.end(); ++i) for (int k = 0; k < 2000; ++k) x = x * 1.0000001 + 1e-9;
        std::lock_guard<std::mutex> g(mu); ids.insert(std::this_thread::get_id());
    });
    return (int) ids.size();
}

int main(int argc, char **argv) {
    vr::Args A(argc, argv);
    vr::Runner R;
    if (A.has("deadline-s")) R.deadline_abs = vr::now_s() + A.getd("deadline-s", 0);
    R.nworkers = (int) A.geti("workers", 8);
    std::string mode = A.get("mode", "lib");
    std::vector<std::string> samples;
#ifndef KNOB_DEMO
    int L = (int) A.geti("len", 2);
    { int hw = (int) tbb::info::default_concurrency(); NS[5] = hw + 1; NS[6] = 2 * hw + 9; }
    NV = (int) A.geti("nv", 7); if (NV < 1 || NV > 7) NV = 7;
    // enumerate sequences
    std::vector<std::vector<int>> seqs;
    // a call is (value n, call site): encoded n*8 + site; site 0 = this translation unit on the main thread (printed "n"),
    // 1 = the second translation unit on the main thread ("n@2"), 2 = this translation unit on a fresh thread that ends
    // right after the call ("n@t"), 3 / 4 = the number passed as an int / unsigned instead of a std::size_t ("n@i", "n@u")
    // - the limit is a property of the process, whoever sets it and however the number is held
    for (int len = 1; len <= L; ++len) { uint64_t tot = 1; for (int i = 0; i < len; ++i) tot *= NV * 5; for (uint64_t x = 0; x < tot; ++x) { std::vector<int> s; uint64_t y = x; for (int i = 0; i < len; ++i) { s.push_back(NS[(y % (NV * 5)) / 5] * 8 + (int) (y % 5)); y /= NV * 5; } seqs.push_back(s); } }
    auto cs_of = [&](const std::vector<int> &s, int upto) { std::string c = "mode=lib;calls="; for (int i = 0; i <= upto && i < (int) s.size(); ++i) c += (i ? "," : "") + std::to_string(s[i] / 8) + (s[i] % 8 == 1 ? "@2" : s[i] % 8 == 2 ? "@t" : s[i] % 8 == 3 ? "@i" : s[i] % 8 == 4 ? "@u" : ""); return c; };
    auto one = [&](const std::vector<int> &s) {
        for (size_t i = 0; i < s.size(); ++i) {
            R.crumb_text(cs_of(s, (int) i));
            const int n = s[i] / 8, where = s[i] % 8;
            if (where == 3) knob_set_int(n);
            else if (where == 4) knob_set_unsigned((unsigned) n);
            else if (where == 1) knob_set_from_tu2((std::size_t) n);
            else if (where == 2) { std::thread t([n]() { knob_set_from_tu1((std::size_t) n); }); t.join(); }
            else knob_set_from_tu1((std::size_t) n);
            long a = active();
            R.count(C_TRANS);
            if (a != n) { R.crumb_done(); R.violation({"set_global_tbb_concurrency", "knob-no-effect", cs_of(s, (int) i), "after set_global_tbb_concurrency(" + std::to_string(n) + ") returned" + (s[i] % 2 ? " (called from a second translation unit)" : "") + " the allowed parallelism is " + std::to_string(a)}); return; }
            // A parallel_for is run between the calls so that the scheduler is really active when the next limit arrives.
            // The number of distinct threads that execute it is recorded but NOT judged: oneTBB lets workers that
            // were already active leave lazily after the limit is lowered, so "distinct threads <= n" is stronger than
            // what the property (and oneTBB) promise. (An earlier version of this check raised that false alarm.)
            int d = distinct_threads();
            if (d > n) R.count(C_OVER);
            R.crumb_done();
        }
        // a library call that follows still runs under the last value
        typedef boost::adjacency_list<boost::vecS, boost::vecS, boost::undirectedS, boost::no_property, boost::property<boost::edge_weight_t, double>> G;
        G g(4); for (int u = 0; u < 4; ++u) for (int v = u + 1; v < 4; ++v) boost::add_edge(u, v, 1.0, g);
        std::list<std::list<boost::graph_traits<G>::edge_descriptor>> cycles;
        double wgt = parmcb::mcb_sva_signed_tbb(g, boost::get(boost::edge_weight, g), std::back_inserter(cycles));
        long a = active();
        if (a != s.back() / 8 || wgt != 9) R.violation({"set_global_tbb_concurrency", "knob-lost", cs_of(s, (int) s.size()) + ";then=mcb_sva_signed_tbb", "after a following library call the allowed parallelism is " + std::to_string(a) + " (weight " + std::to_string(wgt) + ")"});
        R.count(C_EVAL); R.count(C_NONTRIV); R.count(C_STATES, s.size() + 1);
    };
    if (A.has("replay-case")) {
        std::vector<int> s; std::string c = A.get("replay-case"); auto p = c.find("calls="); std::string cl = c.substr(p + 6); auto sc = cl.find(';'); if (sc != std::string::npos) cl = cl.substr(0, sc);
        for (auto &t : vr::split(cl, ',')) s.push_back(atoi(t.c_str()) * 8 + (t.find("@2") != std::string::npos ? 1 : t.find("@t") != std::string::npos ? 2 : t.find("@i") != std::string::npos ? 3 : t.find("@u") != std::string::npos ? 4 : 0));
        R.worker_id = 0; one(s); if (R.vf) fclose(R.vf);
        uint64_t nv = R.sh->nviol.load(); std::string fn = R.viol_prefix + ".0";
        if (FILE *f = fopen(fn.c_str(), "r")) { char buf[4096]; while (fgets(buf, sizeof buf, f)) fputs(buf, stdout); fclose(f); unlink(fn.c_str()); }
        unlink(R.viol_prefix.c_str());
        printf(nv ? "REPLAY-VIOLATION\n" : "REPLAY-OK\n"); return nv ? 1 : 0;
    }
    uint64_t total = seqs.size();
    // every sequence runs in its own process (units are sequences; a worker handles one unit and is respawned by run())
    auto work = [&](uint64_t u, uint64_t) { one(seqs[u]); };
    samples.push_back(cs_of(seqs[total / 2], 9)); samples.push_back(cs_of(seqs[total - 1], 9));
#else
    std::string file = A.get("file");
    struct Combo { int alg, verbose, printcycles, cores, k; };
    std::vector<Combo> combos;
    std::vector<int> ks = {0};
    if (A.has("ks")) { ks.clear(); for (auto &t : vr::split(A.get("ks"), ',')) ks.push_back(atoi(t.c_str())); }
    for (int alg = 0; alg < 6; ++alg) for (int v = 0; v < 2; ++v) for (int pc = 0; pc < 2; ++pc) for (int cores : {1, 2, 3}) for (int k : ks) combos.push_back({alg, v, pc, cores, k});
    auto args_of = [&](const Combo &c) {
        std::vector<std::string> a = {"demo"};
        if (c.alg == 1) { a.push_back("--signed=false"); a.push_back("--fvstrees=true"); }
        if (c.alg == 2) { a.push_back("--signed=false"); a.push_back("--isotrees=true"); }
        if (c.alg == 3) { a.push_back("--signed=false"); }                                   // neither tree option named: the demos fall through to the isometric-trees branch
        if (c.alg == 4) { a.push_back("--signed=false"); a.push_back("--fvstrees=false"); a.push_back("--isotrees=false"); }
        if (c.alg == 5) { a.push_back("--signed=true"); a.push_back("--fvstrees=true"); }
        a.push_back("--parallel=true");
        if (c.verbose) a.push_back("--verbose");
        if (c.printcycles) a.push_back("--printcycles");
        a.push_back("--cores=" + std::to_string(c.cores));
        if (c.k) a.push_back("--k=" + std::to_string(c.k));
        a.push_back(file);
        return a;
    };
    auto cs_of = [&](const Combo &c) { std::string s = "mode=demo;src=" KNOB_DEMO_NAME ";args="; auto a = args_of(c); for (size_t i = 1; i + 1 < a.size(); ++i) s += (i > 1 ? " " : "") + a[i]; return s; };
    auto one = [&](const Combo &c, bool verbose) {
        auto a = args_of(c);
        std::vector<char*> av; for (auto &s : a) av.push_back(const_cast<char*>(s.c_str())); av.push_back(nullptr);
        SamplingBuf sb; std::streambuf *old = std::cout.rdbuf(&sb);
        g_sampled = -1;
        R.crumb_text(cs_of(c));
        int rc = demo_main((int) a.size(), av.data());
        R.crumb_done();
        std::cout.rdbuf(old);
        if (verbose) printf("%s\n--- rc=%d sampled=%ld at '%s'\n", sb.all.c_str(), rc, g_sampled, g_using_line.c_str());
        R.count(C_EVAL); R.count(C_NONTRIV); R.count(C_STATES); R.count(C_TRANS);
        if (rc != 0 || g_sampled < 0) { R.violation({KNOB_DEMO_NAME, "demo-did-not-run", cs_of(c), "demo returned " + std::to_string(rc) + " / never announced a TBB algorithm"}); return; }
        if (g_sampled != c.cores) R.violation({KNOB_DEMO_NAME, "cores-ignored", cs_of(c), "--cores=" + std::to_string(c.cores) + " but the allowed parallelism when the algorithm starts ('" + g_using_line + "') is " + std::to_string(g_sampled)});
    };
    if (A.has("replay-case")) {
        std::string c = A.get("replay-case"); auto p = c.find("args="); std::string as = c.substr(p + 5);
        for (auto &cb : combos) if (cs_of(cb).substr(cs_of(cb).find("args=") + 5) == as) {
            R.worker_id = 0; one(cb, true); if (R.vf) fclose(R.vf);
            uint64_t nv = R.sh->nviol.load(); std::string fn = R.viol_prefix + ".0";
            if (FILE *f = fopen(fn.c_str(), "r")) { char buf[4096]; while (fgets(buf, sizeof buf, f)) fputs(buf, stdout); fclose(f); unlink(fn.c_str()); }
            unlink(R.viol_prefix.c_str());
            printf(nv ? "REPLAY-VIOLATION\n" : "REPLAY-OK\n"); return nv ? 1 : 0;
        }
        printf("combination not found\n"); return 2;
    }
    uint64_t total = combos.size();
    auto work = [&](uint64_t u, uint64_t) { one(combos[u], false); };
    samples.push_back(cs_of(combos[total / 2])); samples.push_back(cs_of(combos[total - 1]));
#endif
    auto describe = [&](uint64_t, uint64_t, uint64_t) { return std::make_pair(std::string("knob"), std::string("?")); };
    // one unit per process: the global TBB state of one case can never leak into another
    double t0 = vr::now_s();
    vr::Runner::Result res; res.units_total = total;
    {
        // run units in waves of nworkers single-unit processes
        R.one_unit_per_process = true;
        A.has("out"); A.require_all_used();
        res = R.run(total, work, describe);
    }
    double wall = vr::now_s() - t0;
    FILE *o = A.has("out") ? fopen(A.get("out").c_str(), "w") : stdout;
    fprintf(o, "{\"harness\":\"knob\",\"evaluations\":%" PRIu64 ",\"distinct_nontrivial\":%" PRIu64 ",\"states\":%" PRIu64 ",\"transitions\":%" PRIu64 ",\"units_total\":%" PRIu64 ",\"units_done\":%" PRIu64
            ",\"capped\":%s,\"crashes\":%" PRIu64 ",\"hangs\":%" PRIu64 ",\"nviol\":%" PRIu64 ",\"wall_s\":%.3f,\n\"samples\":[",
            R.counter(C_EVAL), R.counter(C_NONTRIV), R.counter(C_STATES), R.counter(C_TRANS), res.units_total, res.units_done, res.capped ? "true" : "false", res.crashes, res.hangs, res.nviol, wall);
    for (size_t i = 0; i < samples.size(); ++i) fprintf(o, "%s\"%s\"", i ? "," : "", vr::json_escape(samples[i]).c_str());
    fprintf(o, "],\n\"violations\":[");
    for (size_t i = 0; i < res.violation_lines.size(); ++i) fprintf(o, "%s\n%s", i ? "," : "", res.violation_lines[i].c_str());
    fprintf(o, "]}\n");
    if (o != stdout) fclose(o);
    return 0;
}
