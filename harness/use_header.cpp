// C19, "usable" half: one program per public header. The header under test is the FIRST and ONLY parmcb include of the
// translation unit (-DHDR='<parmcb/...>'), followed by what any user needs to have a graph type at all; the section selected
// by -DUSE_<ID> instantiates (and really calls, on a triangle) what that header offers. A name that the header uses but does
// not itself make visible (e.g. a helper declared in a header it forgot to include) only shows at instantiation time - a
// header that merely parses alone is not yet usable alone.
#include HDR
#include <boost/graph/adjacency_list.hpp>
#include <cstdio>
#include <iterator>
#include <list>
#include <set>
#include <vector>

typedef boost::adjacency_list<boost::vecS, boost::vecS, boost::undirectedS, boost::no_property, boost::property<boost::edge_weight_t, double>> Graph;
typedef boost::property_map<Graph, boost::edge_weight_t>::type WeightMap;
typedef boost::graph_traits<Graph>::edge_descriptor Edge;
typedef boost::graph_traits<Graph>::vertex_descriptor Vertex;

static int fail(const char *what) { std::printf("USE-FAIL %s\n", what); return 1; }

int main(int argc, char **argv) {
    Graph g(4);
    boost::add_edge(0, 1, 1.0, g); boost::add_edge(1, 2, 2.0, g); boost::add_edge(0, 2, 4.0, g); boost::add_edge(2, 3, 1.0, g);
    WeightMap w = boost::get(boost::edge_weight, g);
    std::list<std::list<Edge>> cycles;
    (void) w; (void) cycles; (void) argc; (void) argv;
#if defined(USE_SIGNED)
    if (parmcb::mcb_sva_signed(g, w, std::back_inserter(cycles)) != 7 || cycles.size() != 1) return fail("mcb_sva_signed");
#elif defined(USE_TREES)
    if (parmcb::mcb_sva_fvs_trees(g, w, std::back_inserter(cycles)) != 7) return fail("mcb_sva_fvs_trees");
    cycles.clear();
    if (parmcb::mcb_sva_iso_trees(g, w, std::back_inserter(cycles)) != 7 || cycles.size() != 1) return fail("mcb_sva_iso_trees");
#ifdef PARMCB_HAVE_TBB
    cycles.clear();
    if (parmcb::mcb_sva_fvs_trees_tbb(g, w, std::back_inserter(cycles)) != 7) return fail("mcb_sva_fvs_trees_tbb");
    cycles.clear();
    if (parmcb::mcb_sva_iso_trees_tbb(g, w, std::back_inserter(cycles)) != 7) return fail("mcb_sva_iso_trees_tbb");
#endif
#elif defined(USE_SIGNED_TBB)
    if (parmcb::mcb_sva_signed_tbb(g, w, std::back_inserter(cycles)) != 7 || cycles.size() != 1) return fail("mcb_sva_signed_tbb");
#elif defined(USE_APPROX_SIGNED)
    if (parmcb::approx_mcb_sva_signed(g, w, 2, std::back_inserter(cycles)) != 7 || cycles.size() != 1) return fail("approx_mcb_sva_signed");
#elif defined(USE_APPROX_SIGNED_TBB)
    if (parmcb::approx_mcb_sva_signed_tbb(g, w, 2, std::back_inserter(cycles)) != 7 || cycles.size() != 1) return fail("approx_mcb_sva_signed_tbb");
#elif defined(USE_APPROX_TREES)
    if (parmcb::approx_mcb_sva_fvs_trees(g, w, 2, std::back_inserter(cycles)) != 7) return fail("approx_mcb_sva_fvs_trees");
    cycles.clear();
    if (parmcb::approx_mcb_sva_iso_trees(g, w, 2, std::back_inserter(cycles)) != 7 || cycles.size() != 1) return fail("approx_mcb_sva_iso_trees");
#elif defined(USE_APPROX_TREES_TBB)
    if (parmcb::approx_mcb_sva_fvs_trees_tbb(g, w, 2, std::back_inserter(cycles)) != 7) return fail("approx_mcb_sva_fvs_trees_tbb");
    cycles.clear();
    if (parmcb::approx_mcb_sva_iso_trees_tbb(g, w, 2, std::back_inserter(cycles)) != 7 || cycles.size() != 1) return fail("approx_mcb_sva_iso_trees_tbb");
#elif defined(USE_UMBRELLA)
    if (parmcb::mcb_sva_signed(g, w, std::back_inserter(cycles)) != 7) return fail("mcb_sva_signed");
    cycles.clear();
    if (parmcb::mcb_sva_fvs_trees(g, w, std::back_inserter(cycles)) != 7) return fail("mcb_sva_fvs_trees");
    cycles.clear();
    if (parmcb::mcb_sva_iso_trees(g, w, std::back_inserter(cycles)) != 7) return fail("mcb_sva_iso_trees");
    cycles.clear();
    if (parmcb::approx_mcb_sva_signed(g, w, 2, std::back_inserter(cycles)) != 7) return fail("approx_mcb_sva_signed");
    cycles.clear();
    if (parmcb::approx_mcb_sva_fvs_trees(g, w, 2, std::back_inserter(cycles)) != 7) return fail("approx_mcb_sva_fvs_trees");
    cycles.clear();
    if (parmcb::approx_mcb_sva_iso_trees(g, w, 2, std::back_inserter(cycles)) != 7) return fail("approx_mcb_sva_iso_trees");
#ifdef PARMCB_HAVE_TBB
    cycles.clear();
    if (parmcb::mcb_sva_signed_tbb(g, w, std::back_inserter(cycles)) != 7) return fail("mcb_sva_signed_tbb");
    cycles.clear();
    if (parmcb::approx_mcb_sva_signed_tbb(g, w, 2, std::back_inserter(cycles)) != 7) return fail("approx_mcb_sva_signed_tbb");
#endif
#elif defined(USE_MPI_SIGNED) || defined(USE_MPI_TREES) || defined(USE_MPI_UMBRELLA)
    boost::mpi::environment env(argc, argv);
    boost::mpi::communicator world;
#if defined(USE_MPI_SIGNED) || (defined(USE_MPI_UMBRELLA) && defined(PARMCB_HAVE_TBB))      // the signed MPI variant needs TBB; the umbrella leaves it out without
    { double r = parmcb::mcb_sva_signed_mpi(g, w, std::back_inserter(cycles), world); if (world.rank() == 0 && r != 7) return fail("mcb_sva_signed_mpi"); }
#endif
#if defined(USE_MPI_TREES) || defined(USE_MPI_UMBRELLA)
    cycles.clear();
    { double r = parmcb::mcb_sva_fvs_trees_mpi(g, w, std::back_inserter(cycles), world); if (world.rank() == 0 && r != 7) return fail("mcb_sva_fvs_trees_mpi"); }
    cycles.clear();
    { double r = parmcb::mcb_sva_iso_trees_mpi(g, w, std::back_inserter(cycles), world); if (world.rank() == 0 && r != 7) return fail("mcb_sva_iso_trees_mpi"); }
#ifdef PARMCB_HAVE_TBB
    cycles.clear();
    { double r = parmcb::mcb_sva_fvs_trees_tbb_mpi(g, w, std::back_inserter(cycles), world); if (world.rank() == 0 && r != 7) return fail("mcb_sva_fvs_trees_tbb_mpi"); }
    cycles.clear();
    { double r = parmcb::mcb_sva_iso_trees_tbb_mpi(g, w, std::back_inserter(cycles), world); if (world.rank() == 0 && r != 7) return fail("mcb_sva_iso_trees_tbb_mpi"); }
#endif
#endif
#elif defined(USE_FORESTINDEX)
    parmcb::ForestIndex<Graph> fi(g);
    std::set<std::size_t> seen;
    boost::graph_traits<Graph>::edge_iterator ei, ee;
    for (boost::tie(ei, ee) = boost::edges(g); ei != ee; ++ei) { std::size_t i = fi(*ei); if (!(fi(i) == *ei) || !seen.insert(i).second) return fail("ForestIndex"); }
    if (fi.cycle_space_dimension() != 1) return fail("ForestIndex::cycle_space_dimension");
#elif defined(USE_SPVECGF2)
    parmcb::SpVecGF2<std::size_t> a(3), b(5), c;
    c = a + b; c += a;
    if (c.size() != 1 || *c.begin() != 5 || (a * c) != 0 || (b * c) != 1) return fail("SpVecGF2");
    std::set<std::size_t> s; s.insert(5);
    if ((c * s) != 1) return fail("SpVecGF2 * set");
#elif defined(USE_SPVECFP)
    parmcb::SpVecFP<long> a(7), b(7), c(7);
    a = (std::size_t) 2; b = (std::size_t) 2;
    c = a + b; c += a; c *= 4;          // 12 e_2 = 5 e_2 (mod 7)
    if (c.size() != 1 || (c * a) != 5) return fail("SpVecFP");
#elif defined(USE_FP)
    long three = 3, seven = 7, a12 = 12, b18 = 18, x, y;
    { long r = parmcb::fp<long>::get_mult_inverse(three, seven); if ((((3 * r) % 7) + 7) % 7 != 1) return fail("fp::get_mult_inverse"); }
    if (parmcb::fp<long>::ext_gcd(a12, b18, x, y) != 6 || 12 * x + 18 * y != 6) return fail("fp::ext_gcd");
    if (!parmcb::primes<long>::is_prime(7901) || parmcb::primes<long>::is_prime(7903 * 3)) return fail("primes::is_prime");
#elif defined(USE_UTIL)
    const char txt[] = "c x\np edge 3 2\ne 1 2 5\ne 2 3\n";
    FILE *fp = fmemopen((void *) txt, sizeof(txt) - 1, "r");
    Graph h; parmcb::read_dimacs_from_file(fp, h); fclose(fp);
    if (boost::num_vertices(h) != 3 || boost::num_edges(h) != 2) return fail("read_dimacs_from_file");
    if (parmcb::has_loops(h) || parmcb::has_multiple_edges(h) || parmcb::has_non_positive_weights(h, boost::get(boost::edge_weight, h))) return fail("validators");
#ifdef PARMCB_HAVE_TBB
    parmcb::set_global_tbb_concurrency(2);
#endif
#elif defined(USE_SPTREES)
    auto im = boost::get(boost::vertex_index, g);
    parmcb::SPTree<Graph, WeightMap> t((std::size_t) 0, g, im, w, (Vertex) 0);
    if (!t.node(3) || t.node(3)->weight() != 4 || t.first(3) != 1) return fail("SPTree");
#elif defined(USE_FVS)
    std::vector<Vertex> f; parmcb::greedy_fvs(g, std::back_inserter(f));
    if (f.size() != 1) return fail("greedy_fvs");
#elif defined(USE_CYCLES)
    std::vector<parmcb::SPTree<Graph, WeightMap>> trees; std::vector<parmcb::CandidateCycle<Graph, WeightMap>> cc;
    { parmcb::detail::HortonCyclesBuilder<Graph, WeightMap> bld; bld(g, w, trees, cc); if (cc.empty()) return fail("HortonCyclesBuilder"); }
    { std::vector<parmcb::SPTree<Graph, WeightMap>> t2; std::vector<parmcb::CandidateCycle<Graph, WeightMap>> c2; parmcb::detail::FVSCyclesBuilder<Graph, WeightMap> bld; bld(g, w, t2, c2); if (c2.empty()) return fail("FVSCyclesBuilder"); }
    { std::vector<parmcb::SPTree<Graph, WeightMap>> t3; std::vector<parmcb::CandidateCycle<Graph, WeightMap>> c3; parmcb::detail::ISOCyclesBuilder<Graph, WeightMap> bld; bld(g, w, t3, c3); if (c3.empty()) return fail("ISOCyclesBuilder"); }
#elif defined(USE_SPANNING_FOREST)
    std::vector<Edge> f; std::size_t k = parmcb::detail::spanning_forest(g, std::back_inserter(f));
    if (f.size() != 3 || k != 1) return fail("spanning_forest");
#else
#error "no USE_<ID> selected"
#endif
    std::printf("USE-OK\n");
    return 0;
}
