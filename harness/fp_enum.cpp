#include <iostream>
// fp / primes half of C18: complete enumeration of argument boxes for ext_gcd, get_mult_inverse, is_prime,
// for int, long and cpp_int, against schoolbook references.
#include "common/runner.hpp"
#include <cassert>
#include <cmath>
#include <cstddef>
#include <cstdint>
#include <stdexcept>
#include <boost/multiprecision/cpp_int.hpp>
#include <parmcb/config.hpp>
#include <parmcb/fp.hpp>
#include <parmcb/spvecfp.hpp>

typedef boost::multiprecision::cpp_int BigInt;
enum { C_EVAL = 0, C_NONTRIV };

static long gcd_ref(long a, long b) { a = a < 0 ? -a : a; b = b < 0 ? -b : b; while (b) { long t = a % b; a = b; b = t; } return a; }
template<class T> static long L(const T &x) { return (long) x; }

struct Plan { long gcd_box = 64, inv_pmax = 64, prime_max = 10000; };

template<class T>
static void gcd_case(vr::Runner &R, const char *tn, long a0, long b0, bool verbose = false) {
    std::string cs = std::string("fn=ext_gcd;T=") + tn + ";a=" + std::to_string(a0) + ";b=" + std::to_string(b0);
    R.crumb_text(cs);
    T a = T(a0), b = T(b0), x = T(12345), y = T(12345), g;
    try { g = parmcb::fp<T>::ext_gcd(a, b, x, y); }
    catch (std::runtime_error *e) { delete e; R.crumb_done(); R.violation({"fp::ext_gcd", "exception", cs, "threw"}); return; }
    catch (...) { R.crumb_done(); R.violation({"fp::ext_gcd", "exception", cs, "threw"}); return; }
    R.crumb_done();
    R.count(C_EVAL); if (a0 != 0 && b0 != 0) R.count(C_NONTRIV);
    long want = gcd_ref(a0, b0);
    if (verbose) printf("ext_gcd(%ld,%ld) = %ld x=%ld y=%ld (gcd %ld)\n", a0, b0, L(g), L(x), L(y), want);
    if (L(g) != want) { R.violation({"fp::ext_gcd", "ext-gcd-value", cs, "returned " + std::to_string(L(g)) + ", gcd is " + std::to_string(want)}); return; }
    if (a0 * L(x) + b0 * L(y) != want) R.violation({"fp::ext_gcd", "ext-gcd-bezout", cs, "a*x+b*y = " + std::to_string(a0 * L(x) + b0 * L(y)) + " with x=" + std::to_string(L(x)) + " y=" + std::to_string(L(y)) + ", gcd is " + std::to_string(want)});
}

template<class T>
static void inv_case(vr::Runner &R, const char *tn, long a0, long p0, bool verbose = false) {
    std::string cs = std::string("fn=get_mult_inverse;T=") + tn + ";a=" + std::to_string(a0) + ";p=" + std::to_string(p0);
    R.crumb_text(cs);
    T a = T(a0), p = T(p0), r; bool threw = false;
    // the library signals errors with `throw new std::runtime_error`: the catcher owns the object
    try { r = parmcb::fp<T>::get_mult_inverse(a, p); } catch (std::runtime_error *e) { delete e; threw = true; } catch (...) { threw = true; }
    R.crumb_done();
    R.count(C_EVAL); R.count(C_NONTRIV);
    bool coprime = gcd_ref(a0, p0) == 1;
    if (verbose) printf("get_mult_inverse(%ld,%ld) -> %s%ld\n", a0, p0, threw ? "threw " : "", threw ? 0 : L(r));
    if (coprime && threw) { R.violation({"fp::get_mult_inverse", "inverse-throw", cs, "threw although gcd(a,p)=1"}); return; }
    if (!coprime && !threw) { R.violation({"fp::get_mult_inverse", "inverse-no-throw", cs, "returned " + std::to_string(L(r)) + " although gcd(a,p)=" + std::to_string(gcd_ref(a0, p0))}); return; }
    if (coprime) {
        long prod = ((a0 % p0) * (L(r) % p0)) % p0; if (prod < 0) prod += p0;
        if (prod != 1 % p0) R.violation({"fp::get_mult_inverse", "inverse-wrong", cs, "a*r mod p = " + std::to_string(prod) + " for r=" + std::to_string(L(r))});
    }
}

static std::vector<char> sieve;
template<class T>
static void prime_case(vr::Runner &R, const char *tn, long p0, bool verbose = false) {
    std::string cs = std::string("fn=is_prime;T=") + tn + ";p=" + std::to_string(p0);
    R.crumb_text(cs);
    bool got;
    try { got = parmcb::primes<T>::is_prime(T(p0)); } catch (std::runtime_error *e) { delete e; R.crumb_done(); R.violation({"primes::is_prime", "exception", cs, "threw"}); return; } catch (...) { R.crumb_done(); R.violation({"primes::is_prime", "exception", cs, "threw"}); return; }
    R.crumb_done();
    R.count(C_EVAL); R.count(C_NONTRIV);
    bool want;
    if (p0 < (long) sieve.size()) want = sieve[p0]; else { want = p0 >= 2; for (long d = 2; d * d <= p0; ++d) if (p0 % d == 0) { want = false; break; } }
    if (verbose) printf("is_prime(%ld) = %d (truth %d)\n", p0, got, want);
    if (got != want) R.violation({"primes::is_prime", "is-prime", cs, std::string("returned ") + (got ? "true" : "false") + " for a " + (want ? "prime" : "composite")});
}


// ---- SpVecFP over a LARGE prime with built-in coordinate types (the BFS of spvec_bfs.cpp covers p <= 7 only) ----
// p is the largest prime whose (p-1)^2 still fits the type (a single product must be representable; that is all the class
// can need). Vectors over 3 coordinates with values from {0, 1, 2, (p-1)/2, p-2, p-1} are built through public operations
// (unit assignment, scalar multiplication, +=); for every ordered pair a+b, a+=b, a*b and a*s for s in the value alphabet
// plus {p, p+1, -1} are compared with a dense model computed in cpp_int.
template<class T> static std::string vecfp_str(const parmcb::SpVecFP<T> &v) { std::string s = "{"; for (auto it = v.begin(); it != v.end(); ++it) s += (s.size() > 1 ? "," : "") + std::to_string(boost::get<0>(*it)) + ":" + std::to_string((long long) boost::get<1>(*it)); return s + "}"; }
static BigInt modp(BigInt x, const BigInt &p) { x %= p; if (x < 0) x += p; return x; }
template<class T> static typename std::enable_if<std::is_arithmetic<T>::value, bool>::type fits_in(long v) { return v >= (long) std::numeric_limits<T>::min() && v <= (long) std::numeric_limits<T>::max(); }
template<class T> static typename std::enable_if<!std::is_arithmetic<T>::value, bool>::type fits_in(long) { return true; }
template<class T>
static void vecfp_unit(vr::Runner &R, const char *tn, long p0, int ai) {
    const int D = 3; const long V[6] = {0, 1, 2, (p0 - 1) / 2, p0 - 2, p0 - 1};
    auto dense_of = [&](int idx, std::vector<long> &d) { d.assign(D, 0); for (int c = 0; c < D; ++c) { d[c] = V[idx % 6]; idx /= 6; } };
    auto build = [&](const std::vector<long> &d) { parmcb::SpVecFP<T> v((T) p0); for (int c = 0; c < D; ++c) if (d[c]) { parmcb::SpVecFP<T> u((T) p0); u = (std::size_t) c; u *= (T) d[c]; v += u; } return v; };
    auto check = [&](const std::string &cs, const parmcb::SpVecFP<T> &got, const std::vector<BigInt> &want, const char *what) {
        std::vector<BigInt> g(D, 0); std::size_t prev = 0; bool first = true, canon = true;
        for (auto it = got.begin(); it != got.end(); ++it) { std::size_t i = boost::get<0>(*it); BigInt val = BigInt((long long) boost::get<1>(*it)); if ((!first && i <= prev) || val < 1 || val >= p0 || i >= (std::size_t) D) canon = false; if (i < (std::size_t) D) g[i] = val; prev = i; first = false; }
        if (!canon) { R.violation({"SpVecFP", "not-canonical", cs, std::string(what) + " = " + vecfp_str(got) + " is not in canonical form (values 1..p-1, increasing indices)"}); return false; }
        for (int c = 0; c < D; ++c) if (g[c] != want[c]) { R.violation({"SpVecFP", "wrong-content", cs, std::string(what) + " = " + vecfp_str(got) + " differs from the dense computation at coordinate " + std::to_string(c)}); return false; }
        return true;
    };
    std::vector<long> da, db; dense_of(ai, da);
    for (int bi = 0; bi < 216; ++bi) {
        dense_of(bi, db);
        std::string cs = std::string("fn=spvecfp;T=") + tn + ";p=" + std::to_string(p0) + ";a=" + std::to_string(da[0]) + "." + std::to_string(da[1]) + "." + std::to_string(da[2]) + ";b=" + std::to_string(db[0]) + "." + std::to_string(db[1]) + "." + std::to_string(db[2]);
        R.crumb_text(cs);
        parmcb::SpVecFP<T> a = build(da), b = build(db);
        std::vector<BigInt> wa(D), wsum(D); BigInt wdot = 0;
        for (int c = 0; c < D; ++c) { wa[c] = da[c]; wsum[c] = modp(BigInt(da[c]) + db[c], p0); wdot += BigInt(da[c]) * db[c]; }
        wdot = modp(wdot, p0);
        bool ok = check(cs, a, wa, "a (built from unit vectors)");
        if (ok) { parmcb::SpVecFP<T> s = a + b; ok = check(cs, s, wsum, "a + b"); }
        if (ok) { parmcb::SpVecFP<T> s = a; s += b; ok = check(cs, s, wsum, "a += b"); }
        if (ok) { BigInt d = modp(BigInt((long long) (a * b)), p0); if (d != wdot) { R.violation({"SpVecFP", "dot-product", cs, "a * b = " + std::to_string((long long) (a * b)) + ", dense computation gives " + wdot.str()}); ok = false; } }
        if (ok && bi < 9) {
            const long S[9] = {0, 1, 2, (p0 - 1) / 2, p0 - 2, p0 - 1, p0, p0 + 1, -1};
            long sc = S[bi]; std::vector<BigInt> wsc(D);
            if (!fits_in<T>(sc)) { R.crumb_done(); R.count(C_EVAL, 4); R.count(C_NONTRIV, 4); continue; }     // a scalar that T cannot hold is not an input
            for (int c = 0; c < D; ++c) wsc[c] = modp(BigInt(da[c]) * sc, p0);
            parmcb::SpVecFP<T> m = a * (T) sc; ok = check(cs + ";scalar=" + std::to_string(sc), m, wsc, "a * scalar");
            if (ok) { parmcb::SpVecFP<T> m2 = a; m2 *= (T) sc; check(cs + ";scalar=" + std::to_string(sc), m2, wsc, "a *= scalar"); }
        }
        R.crumb_done();
        R.count(C_EVAL, 4); R.count(C_NONTRIV, 4);
    }
}

template<class T>
static void dispatch_one(vr::Runner &R, const char *tn, std::map<std::string, std::string> &kv) {
    if (kv["fn"] == "spvecfp") {
        long p0 = atol(kv["p"].c_str()); const long V[6] = {0, 1, 2, (p0 - 1) / 2, p0 - 2, p0 - 1};
        auto parts = vr::split(kv["a"], '.'); int ai = 0, mul = 1;
        for (auto &t : parts) { long v = atol(t.c_str()); int d = 0; for (int i = 0; i < 6; ++i) if (V[i] == v) d = i; ai += d * mul; mul *= 6; }
        vecfp_unit<T>(R, tn, p0, ai);      // re-runs this a against every b
    }
    else if (kv["fn"] == "ext_gcd") gcd_case<T>(R, tn, atol(kv["a"].c_str()), atol(kv["b"].c_str()), true);
    else if (kv["fn"] == "get_mult_inverse") inv_case<T>(R, tn, atol(kv["a"].c_str()), atol(kv["p"].c_str()), true);
    else prime_case<T>(R, tn, atol(kv["p"].c_str()), true);
}

int main(int argc, char **argv) {
    vr::Args A(argc, argv);
#ifdef PARMCB_LOGGING
    std::cout.setstate(std::ios_base::badbit);      // built against a config.hpp with PARMCB_LOGGING on: the library chats on std::cout (harness output uses stdio)
#endif
    vr::Runner R;
    R.nworkers = (int) A.geti("workers", 16);
    if (A.has("deadline-s")) R.deadline_abs = vr::now_s() + A.getd("deadline-s", 0);
    Plan pl; pl.gcd_box = A.geti("gcd-box", 64); pl.inv_pmax = A.geti("inv-pmax", 64); pl.prime_max = A.geti("prime-max", 10000);
    if (A.has("replay-case")) {
        std::map<std::string, std::string> kv;
        for (auto &p : vr::split(A.get("replay-case"), ';')) { auto eq = p.find('='); if (eq != std::string::npos) kv[p.substr(0, eq)] = p.substr(eq + 1); }
        R.worker_id = 0;
        if (kv["T"] == "int") dispatch_one<int>(R, "int", kv); else if (kv["T"] == "int16_t") dispatch_one<std::int16_t>(R, "int16_t", kv); else if (kv["T"] == "int8_t") dispatch_one<std::int8_t>(R, "int8_t", kv); else if (kv["T"] == "unsigned") dispatch_one<unsigned int>(R, "unsigned", kv); else if (kv["T"] == "uint16_t") dispatch_one<std::uint16_t>(R, "uint16_t", kv); else if (kv["T"] == "uint64_t") dispatch_one<std::uint64_t>(R, "uint64_t", kv); else if (kv["T"] == "long") dispatch_one<long>(R, "long", kv); else dispatch_one<BigInt>(R, "cpp_int", kv);
        if (R.vf) fclose(R.vf);
        uint64_t nv = R.sh->nviol.load();
        std::string fn = R.viol_prefix + ".0";
        if (FILE *f = fopen(fn.c_str(), "r")) { char buf[4096]; while (fgets(buf, sizeof buf, f)) fputs(buf, stdout); fclose(f); unlink(fn.c_str()); }
        unlink(R.viol_prefix.c_str());
        printf(nv ? "REPLAY-VIOLATION\n" : "REPLAY-OK\n");
        return nv ? 1 : 0;
    }
    long smax = std::min<long>(pl.prime_max + 1, 20000000);
    sieve.assign(smax, 1); sieve[0] = 0; if (smax > 1) sieve[1] = 0;
    for (long i = 2; i * i < smax; ++i) if (sieve[i]) for (long j = i * i; j < smax; j += i) sieve[j] = 0;
    // units: per type: gcd rows (one per a), inverse rows (one per p), prime chunks of 2000
    struct U { int type, fn; long x; };
    std::vector<U> units;
    for (int t = 0; t < 3; ++t) {
        for (long a = -pl.gcd_box; a <= pl.gcd_box; ++a) units.push_back({t, 0, a});
        for (long p = 2; p <= pl.inv_pmax; ++p) units.push_back({t, 1, p});
        for (long lo = 2; lo <= pl.prime_max; lo += 2000) units.push_back({t, 2, lo});
        for (long ai = 0; ai < 216; ++ai) units.push_back({t, 3, ai});
    }
    uint64_t seed = (uint64_t) A.geti("seed", 0);
    static const char *tn[] = {"int", "long", "cpp_int"};
    auto work = [&](uint64_t ui, uint64_t) {
        const U &u = units[(ui + seed) % units.size()];
        if (u.fn == 0) { for (long b = -pl.gcd_box; b <= pl.gcd_box; ++b) { if (u.x == 0 && b == 0) continue;
                if (u.type == 0) gcd_case<int>(R, tn[0], u.x, b); else if (u.type == 1) gcd_case<long>(R, tn[1], u.x, b); else gcd_case<BigInt>(R, tn[2], u.x, b); } }
        else if (u.fn == 1) { for (long a = -2 * u.x; a <= 2 * u.x; ++a) {
                if (u.type == 0) inv_case<int>(R, tn[0], a, u.x); else if (u.type == 1) inv_case<long>(R, tn[1], a, u.x); else inv_case<BigInt>(R, tn[2], a, u.x); } }
        else if (u.fn == 3) { if (u.type == 0) { vecfp_unit<int>(R, tn[0], 46337, (int) u.x); vecfp_unit<std::int16_t>(R, "int16_t", 32749, (int) u.x); vecfp_unit<std::int8_t>(R, "int8_t", 127, (int) u.x); vecfp_unit<std::int16_t>(R, "int16_t", 181, (int) u.x);
                vecfp_unit<unsigned int>(R, "unsigned", 46337, (int) u.x); vecfp_unit<std::uint16_t>(R, "uint16_t", 251, (int) u.x); }      // unsigned coordinate types: nothing may rely on going negative
            else if (u.type == 1) { vecfp_unit<long>(R, tn[1], 2147483647L, (int) u.x); vecfp_unit<std::uint64_t>(R, "uint64_t", 2147483647L, (int) u.x); } else vecfp_unit<BigInt>(R, tn[2], 2147483647L, (int) u.x); }
        else { for (long p = u.x; p < u.x + 2000 && p <= pl.prime_max; ++p) {
                if (u.type == 0) prime_case<int>(R, tn[0], p); else if (u.type == 1) prime_case<long>(R, tn[1], p); else prime_case<BigInt>(R, tn[2], p); } }
    };
    auto describe = [&](uint64_t, uint64_t, uint64_t) { return std::make_pair(std::string("fp"), std::string("?")); };
    double t0 = vr::now_s();
    A.has("out"); A.require_all_used();
    auto res = R.run(units.size(), work, describe);
    double wall = vr::now_s() - t0;
    FILE *o = A.has("out") ? fopen(A.get("out").c_str(), "w") : stdout;
    fprintf(o, "{\"harness\":\"fp_enum\",\"evaluations\":%" PRIu64 ",\"distinct_nontrivial\":%" PRIu64 ",\"units_total\":%" PRIu64 ",\"units_done\":%" PRIu64
            ",\"capped\":%s,\"crashes\":%" PRIu64 ",\"hangs\":%" PRIu64 ",\"nviol\":%" PRIu64 ",\"wall_s\":%.3f,\n\"samples\":[\"fn=ext_gcd;T=int;a=-%ld;b=0\",\"fn=get_mult_inverse;T=cpp_int;a=-%ld;p=%ld\",\"fn=is_prime;T=long;p=%ld\"],\n\"violations\":[",
            R.counter(C_EVAL), R.counter(C_NONTRIV), res.units_total, res.units_done, res.capped ? "true" : "false", res.crashes, res.hangs, res.nviol, wall,
            pl.gcd_box, 2 * pl.inv_pmax - 1, pl.inv_pmax, pl.prime_max);
    for (size_t i = 0; i < res.violation_lines.size(); ++i) fprintf(o, "%s\n%s", i ? "," : "", res.violation_lines[i].c_str());
    fprintf(o, "]}\n");
    if (o != stdout) fclose(o);
    return 0;
}
