// C05 / C06 / C15 harness (flavour I): every graph of G(n) x weighting x k x approximate sequential variant.
// Private members of BaseApproxSpannerAlgorithm are read for C15 (this TU is compiled with -fno-access-control).
#include <memory>
#include <iostream>
#include "common/runner.hpp"
#include "common/graphs.hpp"
#include "common/bigref.hpp"
#include "common/bgl.hpp"
#include "common/variants.hpp"
#include <queue>

enum Ctr { C_EVAL = 0, C_INPUTS, C_NONTRIV, C_SKIPPED, C_C06_SKIPPED_INVALID, C_SPANNER_EVAL, C_SPANNER_WITH_DROPPED };

struct Cfg {
    std::vector<int> variants;
    std::vector<long> ks;      // -1 means n+1
    bool c05 = true, c06 = true, c15 = true;
};

#ifndef VH_WTYPE
#define VH_WTYPE double
#endif
typedef VH_WTYPE W;     // -DVH_WTYPE=long: the same harness over an integral weight type
typedef vb::Built<W> B;
typedef B::Graph Graph;
typedef B::Edge Edge;
typedef boost::property_map<Graph, boost::edge_weight_t>::type WeightMap;

// k as used in the ORACLE's arithmetic: huge values of k (callers use them as "infinity") are clamped to 2^20, beyond which
// every bound below is vacuous for the graphs enumerated; the library itself always receives the original k
static long kc(long k) { return k > (1L << 20) ? (1L << 20) : k; }

static std::string cs_of(const vg::EdgeList &el, const std::vector<double> &w, int var, long k) {
    return vg::case_string(el, w, std::string("variant=") + vv::approx_name(var) + ";k=" + std::to_string(k));
}

// C15: inspect the spanner right after construction
// TBB = the ParallelUsingTBB template argument: the *_tbb entry points instantiate the same class with true, and the
// property speaks of the spanner of every approximate entry point
template<bool TBB>
static void check_spanner_t(vr::Runner &R, const vg::EdgeList &el, const std::vector<double> &w, B &b, long k, bool verbose) {
    typedef parmcb::detail::mcb_sva_signed<Graph, WeightMap, std::back_insert_iterator<vv::CycleList<W>>> Exact;
    typedef parmcb::detail::BaseApproxSpannerAlgorithm<Graph, WeightMap, Exact, TBB> Algo;
    auto wm = boost::get(boost::edge_weight, b.g);
    auto im = boost::get(boost::vertex_index, b.g);
    std::string cs = vg::case_string(el, w, std::string(TBB ? "component=spanner_tbb;k=" : "component=spanner;k=") + std::to_string(k));
    const char *site = TBB ? "BaseApproxSpannerAlgorithm<ParallelUsingTBB>::construct_spanner" : "BaseApproxSpannerAlgorithm::construct_spanner";
    Algo algo(b.g, wm, im, (std::size_t) k);
    R.count(C_SPANNER_EVAL);
    int n = el.n, m = el.m();
    const Graph &sp = algo._spanner;
    if ((int) boost::num_vertices(sp) != n) { R.violation({site, "spanner-vertices", cs, "spanner has " + std::to_string(boost::num_vertices(sp)) + " vertices, input has " + std::to_string(n)}); return; }
    std::vector<int> retained(m, 0), dropped(m, 0);
    auto swm = boost::get(boost::edge_weight, sp);
    std::vector<std::vector<std::pair<int, int>>> adj(n);   // (neighbour, input edge position)
    boost::graph_traits<Graph>::edge_iterator ei, ee;
    for (boost::tie(ei, ee) = boost::edges(sp); ei != ee; ++ei) {
        auto it = algo._edge_spanner_to_g.find(*ei);
        if (it == algo._edge_spanner_to_g.end()) { R.violation({site, "spanner-map", cs, "a spanner edge has no translation to the input graph"}); return; }
        auto pit = b.by_prop.find(it->second.get_property());
        if (pit == b.by_prop.end()) { R.violation({site, "spanner-map", cs, "a spanner edge translates to something that is not an input edge"}); return; }
        int i = pit->second;
        int su = (int) boost::source(*ei, sp), sv = (int) boost::target(*ei, sp);
        // vertices are translated through the algorithm's own vertex map
        int gu = -1, gv = -1;
        for (int x = 0; x < n; ++x) { if ((int) algo._vertex_g_to_spanner_vec[x] == su) gu = x; if ((int) algo._vertex_g_to_spanner_vec[x] == sv) gv = x; }
        if (!((gu == el.e[i].first && gv == el.e[i].second) || (gu == el.e[i].second && gv == el.e[i].first))) {
            R.violation({site, "spanner-map", cs, "spanner edge endpoints differ from those of the input edge it translates to"}); return; }
        if (retained[i]++) { R.violation({site, "spanner-map", cs, "translation map is not injective (input edge " + std::to_string(i) + " twice)"}); return; }
        double sw = (double) boost::get(swm, *ei);
        if (sw != w[i]) { R.violation({site, "spanner-weight", cs, "spanner carries weight " + vg::fmt_w(sw) + " for input edge " + std::to_string(i) + " of weight " + vg::fmt_w(w[i])}); return; }
        adj[el.e[i].first].push_back({el.e[i].second, i}); adj[el.e[i].second].push_back({el.e[i].first, i});
    }
    for (auto &e : algo._non_spanner_edges) {
        auto pit = b.by_prop.find(e.get_property());
        if (pit == b.by_prop.end()) { R.violation({site, "spanner-partition", cs, "dropped-edge list contains a non-input edge"}); return; }
        if (dropped[pit->second]++) { R.violation({site, "spanner-partition", cs, "input edge dropped twice"}); return; }
    }
    bool anyd = false;
    for (int i = 0; i < m; ++i) {
        if (retained[i] + dropped[i] != 1) { R.violation({site, "spanner-partition", cs, "input edge " + std::to_string(i) + " is retained " + std::to_string(retained[i]) + "x and dropped " + std::to_string(dropped[i]) + "x"}); return; }
        anyd |= dropped[i];
    }
    if (anyd) R.count(C_SPANNER_WITH_DROPPED);
    // hop distances by BFS restricted to edges with weight <= limit, optionally skipping one edge
    auto hops = [&](int s, int t, double limit, int skip) {
        std::vector<int> d(n, -1); std::queue<int> q; d[s] = 0; q.push(s);
        while (!q.empty()) { int u = q.front(); q.pop(); if (u == t) return d[u];
            for (auto &pr : adj[u]) { if (pr.second == skip || w[pr.second] > limit) continue; if (d[pr.first] < 0) { d[pr.first] = d[u] + 1; q.push(pr.first); } } }
        return -1;
    };
    double inf = 1e300;
    for (int i = 0; i < m; ++i) {
        if (dropped[i]) {
            int h = hops(el.e[i].first, el.e[i].second, w[i], -1);
            if (h < 0 || h > 2 * kc(k) - 1) { R.violation({site, "spanner-stretch", cs, "dropped edge " + std::to_string(i) + " has no path of <= 2k-1 retained edges of weight <= its own (hops=" + std::to_string(h) + ")"}); return; }
        } else {
            int h = hops(el.e[i].first, el.e[i].second, inf, i);
            if (h >= 0 && h + 1 <= 2 * kc(k)) { R.violation({site, "spanner-girth", cs, "retained edge " + std::to_string(i) + " lies on a cycle of " + std::to_string(h + 1) + " <= 2k retained edges"}); return; }
        }
    }
    if (verbose) printf("spanner k=%ld retained=%d dropped=%d ok\n", k, (int) std::count(retained.begin(), retained.end(), 1), (int) std::count(dropped.begin(), dropped.end(), 1));
}

static void check_spanner(vr::Runner &R, const vg::EdgeList &el, const std::vector<double> &w, B &b, long k, bool verbose) {
    check_spanner_t<false>(R, el, w, b, k, verbose);
#ifdef PARMCB_HAVE_TBB
    check_spanner_t<true>(R, el, w, b, k, verbose);
#endif
}

static bool g_force_large = false;     // amplified graphs: always the Horton reference (their number of simple cycles explodes)

// --amp r: "parallel composition". The base graph's vertices 0 and 1 are terminals; the result has r copies of everything
// else glued at the terminals (an edge joining the terminals stays single), every copy carrying the base weights. A closing
// path that is too heavy for ONE non-spanner edge breaks the (2k-1) bound only if several such cycles share a heavy edge that
// the optimum uses once - amplification turns every per-edge slip of the base graph into that situation, systematically,
// instead of waiting for a hand-made adversarial instance.
static int g_amp_shared = 2;      // --amp-shared t: the first t vertices are shared by all copies (t = 3: the copies also share a path 0-2-1)
static void amplify(const vg::EdgeList &el, const std::vector<double> &w, int r, vg::EdgeList &out, std::vector<double> &wout) {
    out = vg::EdgeList(); wout.clear();
    const int t = g_amp_shared;
    int inner = std::max(0, el.n - t);
    out.n = std::min(el.n, t) + inner * r;
    auto map = [&](int v, int j) { return v < t ? v : t + j * inner + (v - t); };
    for (int i = 0; i < el.m(); ++i) {
        int a = el.e[i].first, b = el.e[i].second;
        int copies = (a < t && b < t) ? 1 : r;
        for (int j = 0; j < copies; ++j) { out.e.push_back({map(a, j), map(b, j)}); wout.push_back(w[i]); }
    }
}

// graphs with more than 62 edges: dynamic bitsets and the Horton reference instead of 64-bit masks / all-cycles
static void run_case_large(vr::Runner &R, const Cfg &cfg, const vg::EdgeList &el, const std::vector<double> &w, int dim, uint64_t unit, uint64_t sub, B &b, bool verbose) {
    b.set_weights(w);
    double opt = -1;
    for (size_t ki = 0; ki < cfg.ks.size(); ++ki) {
        long k = cfg.ks[ki] < 0 ? el.n + 1 : cfg.ks[ki];
        if (k < 1) continue;
        if (cfg.c15) { R.crumb(unit, sub, 100 + ki); try { check_spanner(R, el, w, b, k, verbose); } catch (std::exception &e) { R.violation({"BaseApproxSpannerAlgorithm::construct_spanner", "exception", vg::case_string(el, w, "component=spanner;k=" + std::to_string(k)), e.what()}); } R.crumb_done(); }
        if (!cfg.c05 && !cfg.c06) continue;
        for (int var : cfg.variants) {
            R.crumb(unit, sub, ki * 10 + var);
            vv::CycleList<W> cycles; W ret = W(); std::string exc;
            try { ret = vv::run_approx<W>(var, b, (std::size_t) k, cycles); } catch (std::exception &e) { exc = e.what(); } catch (...) { exc = "unknown exception"; }
            R.count(C_EVAL);
            std::string cs = cs_of(el, w, var, k); const char *site = vv::approx_name(var);
            if (!exc.empty()) { R.crumb_done(); R.violation({site, "exception", cs, exc}); continue; }
            std::vector<std::vector<int>> ids;
            for (auto &c : cycles) { std::vector<int> v; for (auto &e : c) { auto it = b.by_prop.find(e.get_property()); v.push_back(it == b.by_prop.end() ? -1 : it->second);
#ifdef VH_TOUCH_RESULTS
                    volatile double sink = boost::get(boost::edge_weight, b.g, e); (void) sink;
#endif
                } ids.push_back(v); }
            R.crumb_done();     // results were read through the caller's map above, still inside the case
            auto chk = vbig::check_cycles(el, w, ids, dim);
            if (verbose) printf("variant=%s k=%ld returned=%s emitted_total=%s count=%zu %s\n", site, k, vg::fmt_w(ret).c_str(), vg::fmt_w(chk.total).c_str(), ids.size(), chk.ok ? "valid" : chk.msg.c_str());
            if (!chk.ok) { if (cfg.c05) R.violation({site, chk.cls, cs, chk.msg}); if (cfg.c06) R.violation({site, "no-basis-produced", cs, chk.msg}); continue; }
            if (cfg.c05 && ret != chk.total) R.violation({site, "return-mismatch", cs, "returned " + vg::fmt_w(ret) + " but emitted cycles weigh " + vg::fmt_w(chk.total)});
            if (cfg.c06) {
                if (opt < 0) opt = vbig::horton_reference(el, w).total;
                if (chk.total > (2 * kc(k) - 1) * opt) R.violation({site, "ratio-exceeded", cs, "basis weight " + vg::fmt_w(chk.total) + " > (2k-1) x optimum " + vg::fmt_w(opt)});
                else if (chk.total < opt) R.violation({site, "below-optimum", cs, "basis weight below the optimum"});
                else if (k == 1 && chk.total != opt) R.violation({site, "k1-not-minimum", cs, "k=1 weight " + vg::fmt_w(chk.total) + ", optimum " + vg::fmt_w(opt)});
            }
        }
    }
}

static void run_case(vr::Runner &R, const Cfg &cfg, const vg::EdgeList &el, const std::vector<double> &w,
        const std::vector<uint64_t> &cyc, int dim, uint64_t unit, uint64_t sub, B &b, bool verbose = false) {
    if (el.m() > 62 || g_force_large) { run_case_large(R, cfg, el, w, dim, unit, sub, b, verbose); return; }
    b.set_weights(w);
    vg::RefResult<double> ref; bool have_ref = false;
    auto need_ref = [&]() { if (!have_ref) { ref = vg::reference_mcb<double>(cyc, w, dim); std::sort(ref.weights.begin(), ref.weights.end()); have_ref = true; } };
    for (size_t ki = 0; ki < cfg.ks.size(); ++ki) {
        long k = cfg.ks[ki] < 0 ? el.n + 1 : cfg.ks[ki];
        if (cfg.c15 && k >= 1) {
            R.crumb(unit, sub, 100 + ki);
            try { check_spanner(R, el, w, b, k, verbose); }
            catch (std::exception &e) { R.violation({"BaseApproxSpannerAlgorithm::construct_spanner", "exception", vg::case_string(el, w, "component=spanner;k=" + std::to_string(k)), e.what()}); }
            R.crumb_done();
        }
        if (!cfg.c05 && !cfg.c06) continue;
        for (int var : cfg.variants) {
            R.crumb(unit, sub, ki * 10 + var);
            vv::CycleList<W> cycles;
            W ret = W(); std::string exc; bool threw = false;
            try { ret = vv::run_approx<W>(var, b, (std::size_t) k, cycles); }
            catch (std::exception &e) { exc = std::string("exception: ") + e.what(); threw = true; }
            catch (...) { exc = "exception of a non-std type"; threw = true; }
            R.count(C_EVAL);
            std::string cs = cs_of(el, w, var, k);
            const char *site = vv::approx_name(var);
            if (k == 0) {
                R.crumb_done();
                if (cfg.c06) {
                    // the property asks for "an exception"; its type is not part of the contract
                    if (!threw) R.violation({site, "k0-not-rejected", cs, "k=0 accepted (returned " + vg::fmt_w(ret) + ")"});
                    else if (!cycles.empty()) R.violation({site, "k0-emitted", cs, "k=0 threw but had already emitted " + std::to_string(cycles.size()) + " cycles"});
                }
                continue;
            }
            if (!exc.empty()) { R.crumb_done(); R.violation({site, "exception", cs, exc}); continue; }
            auto chk = vb::check_cycle_set<W>(b, w, cycles, dim);     // (sanitizer builds dereference the returned descriptors here)
            R.crumb_done();
            if (verbose) printf("variant=%s k=%ld returned=%s emitted_total=%s weights=%s count=%zu %s\n", site, k, vg::fmt_w(ret).c_str(),
                    vg::fmt_w(chk.total).c_str(), vb::vec_str(chk.weights).c_str(), chk.masks.size(), chk.ok ? "valid" : chk.msg.c_str());
            if (!chk.ok) { if (cfg.c05) R.violation({site, chk.cls, cs, chk.msg}); if (cfg.c06) { R.count(C_C06_SKIPPED_INVALID); R.violation({site, "no-basis-produced", cs, "output is not a cycle basis of the input (" + chk.msg + "), so no weight bound holds for it"}); } continue; }
            if (cfg.c05 && ret != chk.total) R.violation({site, "return-mismatch", cs, "returned " + vg::fmt_w(ret) + " but emitted cycles weigh " + vg::fmt_w(chk.total) + " under the caller's map"});
            if (cfg.c06) {
                need_ref();
                if (chk.total > (2 * kc(k) - 1) * ref.total) R.violation({site, "ratio-exceeded", cs, "basis weight " + vg::fmt_w(chk.total) + " > (2k-1) x optimum " + vg::fmt_w(ref.total)});
                else if (chk.total < ref.total) R.violation({site, "below-optimum", cs, "basis weight " + vg::fmt_w(chk.total) + " below the optimum " + vg::fmt_w(ref.total) + " (oracle or validator inconsistency)"});
                if (k == 1) {
                    std::vector<double> ws = chk.weights; std::sort(ws.begin(), ws.end());
                    if (ws != ref.weights) R.violation({site, "k1-not-minimum", cs, "k=1 weights " + vb::vec_str(ws) + ", minimum basis " + vb::vec_str(ref.weights)});
                }
            }
        }
    }
    if (verbose && have_ref) printf("reference total=%s weights=%s\n", vg::fmt_w(ref.total).c_str(), vb::vec_str(ref.weights).c_str());
}

int main(int argc, char **argv) {
    vr::Args A(argc, argv);
#ifdef PARMCB_LOGGING
    // harness built against a config.hpp with PARMCB_LOGGING on: the library chats on std::cout; the replay path keeps it
    if (!A.has("replay-case")) std::cout.setstate(std::ios_base::badbit);
#endif
    Cfg cfg;
    cfg.variants = vv::parse_variants(A.get("variants", "signed,fvs,iso"));
    for (auto &s : vr::split(A.get("ks", "1,2,3"), ',')) cfg.ks.push_back(s == "n+1" ? -1 : atol(s.c_str()));
    std::string props = A.get("props", "C05,C06,C15");
    cfg.c05 = props.find("C05") != std::string::npos;
    cfg.c06 = props.find("C06") != std::string::npos;
    cfg.c15 = props.find("C15") != std::string::npos;
    vr::Runner R;
    R.nworkers = (int) A.geti("workers", 16);
    if (A.has("deadline-s")) R.deadline_abs = vr::now_s() + A.getd("deadline-s", 0);

    vv::out_kind() = (int) A.geti("outiter", 0);     // 1: positional output iterator into a pre-sized vector
    if (A.has("replay-case")) {
        auto pc = vg::parse_case(A.get("replay-case"));
        cfg.ks = {atol(pc.get("k", "1").c_str())};
        if (pc.get("component") == "spanner") { cfg.c05 = cfg.c06 = false; cfg.c15 = true; }
        else { cfg.variants = {vv::variant_by_short(pc.get("variant", "approx_mcb_sva_signed"))}; cfg.c15 = false; }
        int dim = vg::cycle_space_dim(pc.g);
        std::vector<uint64_t> cyc; if (pc.g.m() <= 30) cyc = vg::all_simple_cycles(pc.g); else g_force_large = true;
        R.worker_id = 0;
        B b(pc.g, pc.w);
        run_case(R, cfg, pc.g, pc.w, cyc, dim, 0, 0, b, true);
        if (R.vf) fclose(R.vf);
        uint64_t nv = R.sh->nviol.load();
        std::string fn = R.viol_prefix + ".0";
        if (FILE *f = fopen(fn.c_str(), "r")) { char buf[4096]; while (fgets(buf, sizeof buf, f)) fputs(buf, stdout); fclose(f); unlink(fn.c_str()); }
        unlink(R.viol_prefix.c_str());
        printf(nv ? "REPLAY-VIOLATION\n" : "REPLAY-OK\n");
        return nv ? 1 : 0;
    }

    std::vector<double> alpha = vg::alphabet(A.get("alpha", "A2"));
    int n = (int) A.geti("n", 0);
    std::vector<std::string> fams;
    if (A.has("families")) fams = vr::split(A.get("families"), ',');
    const uint64_t relabel_n = (uint64_t) std::max<long>(1, A.geti("relabel", 1));     // every family additionally under relabel_n - 1 renumberings of its vertices (fixed menu)
    std::unique_ptr<vg::BlobUniverse> blob;
    if (A.has("grammar")) { auto t = vr::split(A.get("grammar"), ':'); blob.reset(new vg::BlobUniverse(atoi(t[1].c_str()), atoi(t[2].c_str()))); }
    uint64_t ngraphs = blob ? blob->size() : fams.empty() ? vg::num_graphs(n) : fams.size() * relabel_n;
    uint64_t wchunks = (uint64_t) A.geti("wchunks", 1);       // a unit is (graph, residue class of weightings): spreads one big graph over all workers
    uint64_t total_units = ngraphs * wchunks;
    uint64_t seed = (uint64_t) A.geti("seed", 0);
    int orient_mode = (int) A.geti("orient", 0);
    vg::plus_heavy_k2() = A.has("plus-heavy-k2");
    vg::edge_order_mode() = (int) A.geti("eorder", 0);
    auto unit_graph0 = [&](uint64_t u) { uint64_t uu = ((u / wchunks) + seed) % ngraphs; return blob ? blob->build(uu) : fams.empty() ? vg::graph_from_mask(n, uu) : vg::relabel(vg::family(fams[uu / relabel_n]), (int) (uu % relabel_n)); };
    auto unit_graph = [&](uint64_t u) { vg::EdgeList g = unit_graph0(u); vg::order_edges(g); vg::orient(g, orient_mode); if (vg::plus_heavy_k2()) { g.e.push_back({g.n, g.n + 1}); g.n += 2; } return g; };
    auto describe = [&](uint64_t u, uint64_t sub, uint64_t var) {
        vg::EdgeList el = unit_graph(u);
        std::vector<double> w; vg::weighting(alpha, el.m(), sub, w);
        if (A.geti("amp", 1) > 1) { vg::EdgeList e2; std::vector<double> w2; amplify(el, w, (int) A.geti("amp", 1), e2, w2); el = e2; w = w2; }
        if (var >= 100) { long k = cfg.ks[var - 100] < 0 ? el.n + 1 : cfg.ks[var - 100]; return std::make_pair(std::string("BaseApproxSpannerAlgorithm::construct_spanner"), vg::case_string(el, w, "component=spanner;k=" + std::to_string(k))); }
        long k = cfg.ks[var / 10] < 0 ? el.n + 1 : cfg.ks[var / 10];
        return std::make_pair(std::string(vv::approx_name((int) (var % 10))), cs_of(el, w, (int) (var % 10), k));
    };
    const int amp = (int) A.geti("amp", 1); g_force_large = amp > 1;
    g_amp_shared = (int) A.geti("amp-shared", 2);
    const bool detour_only = A.has("detour-012");     // keep only base graphs in which vertex 2 is joined to exactly 0 and 1 and the edge 0-1 is absent (a two-edge detour shared by the copies)
    const int max_m = (int) A.geti("max-m", 1 << 30), min_m = (int) A.geti("min-m", 0);      // restrict a universe to its sparse / dense part (stated in the bound)
    auto work = [&](uint64_t u, uint64_t start_sub) {
        vg::EdgeList el = unit_graph(u);
        if (el.m() > max_m || el.m() < min_m) return;
        if (detour_only) {
            if (el.n < 3) return;
            int deg2 = 0; bool n0 = false, n1 = false, e01 = false;
            for (auto &e : el.e) { int a = std::min(e.first, e.second), b = std::max(e.first, e.second); if (a == 2 || b == 2) { ++deg2; int o = a == 2 ? b : a; n0 |= o == 0; n1 |= o == 1; } if (a == 0 && b == 1) e01 = true; }
            if (!(deg2 == 2 && n0 && n1 && !e01)) return;
        }
        uint64_t nw = vg::num_weightings(alpha, el.m());
        std::vector<double> w; vg::weighting(alpha, el.m(), 0, w);
        if (amp > 1) {
            vg::EdgeList el2; std::vector<double> w2; amplify(el, w, amp, el2, w2);
            int dim2 = vg::cycle_space_dim(el2);
            B b2(el2, w2);
            for (uint64_t s = start_sub; s < nw; ++s) { if (R.expired()) break; if (s % wchunks != u % wchunks) continue;
                vg::weighting(alpha, el.m(), s, w); amplify(el, w, amp, el2, w2);
                R.count(C_INPUTS, cfg.ks.size()); if (dim2 >= 1) R.count(C_NONTRIV, cfg.ks.size());
                run_case(R, cfg, el2, w2, std::vector<uint64_t>(), dim2, u, s, b2);
            }
            return;
        }
        int dim = vg::cycle_space_dim(el);
        std::vector<uint64_t> cyc; if (el.m() <= 62) cyc = vg::all_simple_cycles(el);
        B b(el, w);
        for (uint64_t s = start_sub; s < nw; ++s) { if (R.expired()) break; if (s % wchunks != u % wchunks) continue;
            vg::weighting(alpha, el.m(), s, w);
            R.count(C_INPUTS, cfg.ks.size()); if (dim >= 1) R.count(C_NONTRIV, cfg.ks.size());
            run_case(R, cfg, el, w, cyc, dim, u, s, b);
        }
    };
    double t0 = vr::now_s();
    A.has("out"); A.require_all_used();
    auto res = R.run(total_units, work, describe);
    double wall = vr::now_s() - t0;
    std::vector<std::string> samples;
    for (uint64_t u : {total_units / 2, total_units - 1, total_units / 3}) {
        if (u >= total_units) continue;
        vg::EdgeList el = unit_graph(u);
        uint64_t nw = vg::num_weightings(alpha, el.m());
        samples.push_back(describe(u, nw / 2, (cfg.ks.size() - 1) * 10 + cfg.variants[0]).second);
    }
    uint64_t evals = R.counter(C_EVAL) + R.counter(C_SPANNER_EVAL);
    FILE *o = A.has("out") ? fopen(A.get("out").c_str(), "w") : stdout;
    fprintf(o, "{\"harness\":\"approx\",\"evaluations\":%" PRIu64 ",\"inputs\":%" PRIu64 ",\"distinct_nontrivial\":%" PRIu64
            ",\"units_total\":%" PRIu64 ",\"units_done\":%" PRIu64 ",\"c06_skipped_structurally_invalid\":%" PRIu64 ",\"spanners_inspected\":%" PRIu64
            ",\"spanners_with_dropped_edges\":%" PRIu64 ",\"capped\":%s,\"crashes\":%" PRIu64 ",\"hangs\":%" PRIu64 ",\"nviol\":%" PRIu64 ",\"wall_s\":%.3f,\n\"samples\":[",
            evals, R.counter(C_INPUTS), R.counter(C_NONTRIV), res.units_total, res.units_done, R.counter(C_C06_SKIPPED_INVALID),
            R.counter(C_SPANNER_EVAL), R.counter(C_SPANNER_WITH_DROPPED), res.capped ? "true" : "false", res.crashes, res.hangs, res.nviol, wall);
    for (size_t i = 0; i < samples.size(); ++i) fprintf(o, "%s\"%s\"", i ? "," : "", vr::json_escape(samples[i]).c_str());
    fprintf(o, "],\n\"violations\":[");
    for (size_t i = 0; i < res.violation_lines.size(); ++i) fprintf(o, "%s\n%s", i ? "," : "", res.violation_lines[i].c_str());
    fprintf(o, "]}\n");
    if (o != stdout) fclose(o);
    return 0;
}
