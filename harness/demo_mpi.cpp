// MPI half of C11, model-checked: src/mcb-dimacs-mpi.cpp (unmodified, main renamed) runs on the vmpi + vtbb shims on
// P rank threads for every file x algorithm x flag combination. A rank that returns while others wait in a collective
// is a deadlock STATE found by the baton scheduler (no timeout involved).
#include "common/runner.hpp"
#include <cmath>
#include "common/explore.hpp"
#include <iostream>
#include <sstream>

#define main demo_main
#include DEMO_SRC
#undef main

enum { C_EVAL = 0, C_NONTRIV, C_STATES, C_TRANS, C_DEADLOCK };

struct FileSpec { std::string path; bool bad; double weight; };

int main(int argc, char **argv) {
    vr::Args A(argc, argv);
    vr::Runner R;
    if (A.has("deadline-s")) R.deadline_abs = vr::now_s() + A.getd("deadline-s", 0);
    R.nworkers = (int) A.geti("workers", 8);
    std::vector<FileSpec> files;
    std::string fspec = A.get("files");
    if (!fspec.empty() && fspec[0] == '@') {       // @listfile: one spec per line
        std::string acc; if (FILE *lf = fopen(fspec.c_str() + 1, "r")) { char buf[4096]; while (fgets(buf, sizeof buf, lf)) { std::string l = buf; while (!l.empty() && (l.back() == '\n' || l.back() == '\r')) l.pop_back(); if (!l.empty()) acc += (acc.empty() ? "" : ",") + l; } fclose(lf); }
        else { fprintf(stderr, "cannot read %s\n", fspec.c_str() + 1); return 2; }
        fspec = acc;
    }
    for (auto &f : vr::split(fspec, ',')) { auto t = vr::split(f, '@'); files.push_back({t[0], t[1] == "bad", atof(t[2].c_str())}); }
    std::vector<int> Ps; for (auto &s : vr::split(A.get("P", "1,2,3"), ',')) Ps.push_back(atoi(s.c_str()));
    struct Case { int file, P, alg, pc, verbose; };
    std::vector<Case> cases;
    for (int f = 0; f < (int) files.size(); ++f) for (int P : Ps) for (int alg = 0; alg < 5; ++alg) for (int pc = 0; pc < 2; ++pc) for (int v = 0; v < 2; ++v) cases.push_back({f, P, alg, pc, v});
    auto args_of = [&](const Case &c) {
        std::vector<std::string> a = {"mcb-dimacs-mpi", files[c.file].path};   // file first: boolean switches take an optional value
        if (c.alg == 1) { a.push_back("--signed=false"); a.push_back("--fvstrees=true"); }
        if (c.alg == 2) { a.push_back("--signed=false"); a.push_back("--isotrees=true"); }
        if (c.alg == 3) { a.push_back("--signed=false"); }
        if (c.alg == 4) { a.push_back("--signed=true"); a.push_back("--fvstrees=true"); a.push_back("--isotrees=true"); }
        if (c.pc) a.push_back("--printcycles");
        if (c.verbose) a.push_back("--verbose");
        return a;
    };
    auto cs_of = [&](const Case &c) { std::string s = "demo=mcb-dimacs-mpi;P=" + std::to_string(c.P) + ";args="; auto a = args_of(c); for (size_t i = 1; i < a.size(); ++i) s += (i > 1 ? " " : "") + a[i]; return s; };
    auto one = [&](const Case &c, bool verbose) {
        auto a = args_of(c);
        std::ostringstream out, err;
        std::streambuf *oo = std::cout.rdbuf(out.rdbuf()), *oe = std::cerr.rdbuf(err.rdbuf());
        std::vector<int> rc(c.P, -99);
        boost::mpi::vmpi::World w(c.P);
        R.crumb_text(cs_of(c));
        bool ok = boost::mpi::vmpi::run_ranks(w, [&](int r) {
            std::vector<std::string> mine = a; std::vector<char*> av; for (auto &s : mine) av.push_back(const_cast<char*>(s.c_str())); av.push_back(nullptr);
            rc[r] = demo_main((int) mine.size(), av.data());
        });
        R.crumb_done();
        std::cout.rdbuf(oo); std::cerr.rdbuf(oe);
        R.count(C_EVAL); R.count(C_NONTRIV); R.count(C_STATES, w.collectives + c.P + 1); R.count(C_TRANS, w.collectives * c.P + c.P);
        const FileSpec &fs = files[c.file];
        std::string so = out.str(), se = err.str();
        if (verbose) printf("---- stdout ----\n%s---- stderr ----\n%s---- final state: %s\n", so.c_str(), se.c_str(), boost::mpi::vmpi::describe(w).c_str());
        std::string site = "mcb-dimacs-mpi";
        if (!ok) { R.count(C_DEADLOCK); R.violation({site, "deadlock", cs_of(c), std::string(fs.bad ? "invalid" : "valid") + " input: " + w.deadlock_desc}); return; }
        if (!w.rank_errors.empty()) { R.violation({site, "exception", cs_of(c), w.rank_errors[0]}); return; }
        bool has_weight = so.find("MCB weight") != std::string::npos;
        if (fs.bad) {
            for (int r = 0; r < c.P; ++r) if (rc[r] == 0) { R.violation({site, "bad-input-accepted", cs_of(c), "rank " + std::to_string(r) + " exited with status 0 on an invalid graph"}); return; }
            if (se.empty()) { R.violation({site, "no-diagnostic", cs_of(c), "invalid graph rejected without a diagnostic on stderr"}); return; }
            if (has_weight) { R.violation({site, "ran-algorithm-on-bad-input", cs_of(c), "an MCB weight was printed for an invalid graph"}); return; }
        } else {
            for (int r = 0; r < c.P; ++r) if (rc[r] != 0) { R.violation({site, "valid-input-rejected", cs_of(c), "rank " + std::to_string(r) + " exited with status " + std::to_string(rc[r])}); return; }
            auto p = so.find("MCB weight = ");
            if (p == std::string::npos) { R.violation({site, "no-weight-printed", cs_of(c), "no 'MCB weight' line"}); return; }
            double got = atof(so.c_str() + p + 13);
            if (std::fabs(got - fs.weight) > 5e-6 * std::max(1.0, std::fabs(fs.weight))) R.violation({site, "wrong-weight", cs_of(c), "printed weight " + std::to_string(got) + ", optimum " + std::to_string(fs.weight)});
        }
    };
    if (A.has("replay-case")) {
        std::string rcs = A.get("replay-case");
        for (auto &c : cases) if (cs_of(c) == rcs) {
            R.worker_id = 0; one(c, true); if (R.vf) fclose(R.vf);
            uint64_t nv = R.sh->nviol.load(); std::string fn = R.viol_prefix + ".0";
            if (FILE *f = fopen(fn.c_str(), "r")) { char buf[4096]; while (fgets(buf, sizeof buf, f)) fputs(buf, stdout); fclose(f); unlink(fn.c_str()); }
            unlink(R.viol_prefix.c_str());
            printf(nv ? "REPLAY-VIOLATION\n" : "REPLAY-OK\n"); return nv ? 1 : 0;
        }
        printf("case not found in the current matrix\n"); return 2;
    }
    auto work = [&](uint64_t u, uint64_t) { one(cases[u], false); };
    auto describe = [&](uint64_t, uint64_t, uint64_t) { return std::make_pair(std::string("mcb-dimacs-mpi"), std::string("?")); };
    double t0 = vr::now_s();
    A.has("out"); A.require_all_used();
    auto res = R.run(cases.size(), work, describe);
    double wall = vr::now_s() - t0;
    FILE *o = A.has("out") ? fopen(A.get("out").c_str(), "w") : stdout;
    fprintf(o, "{\"harness\":\"demo_mpi\",\"evaluations\":%" PRIu64 ",\"distinct_nontrivial\":%" PRIu64 ",\"states\":%" PRIu64 ",\"transitions\":%" PRIu64 ",\"deadlock_states\":%" PRIu64 ",\"units_total\":%" PRIu64 ",\"units_done\":%" PRIu64
            ",\"capped\":%s,\"crashes\":%" PRIu64 ",\"hangs\":%" PRIu64 ",\"nviol\":%" PRIu64 ",\"wall_s\":%.3f,\n\"samples\":[\"%s\",\"%s\"],\n\"violations\":[",
            R.counter(C_EVAL), R.counter(C_NONTRIV), R.counter(C_STATES), R.counter(C_TRANS), R.counter(C_DEADLOCK), res.units_total, res.units_done, res.capped ? "true" : "false", res.crashes, res.hangs, res.nviol, wall,
            vr::json_escape(cs_of(cases[cases.size() / 2])).c_str(), vr::json_escape(cs_of(cases.back())).c_str());
    for (size_t i = 0; i < res.violation_lines.size(); ++i) fprintf(o, "%s\n%s", i ? "," : "", res.violation_lines[i].c_str());
    fprintf(o, "]}\n");
    if (o != stdout) fclose(o);
    return 0;
}
