#include <iostream>
// C09 harness (flavour I): exact variants on weights that are NOT exactly summable (decimal fractions). Every weighting
// over a small decimal alphabet of every graph of G(n); oracle in exact integer arithmetic: each double is converted
// exactly to a 128-bit fixed-point integer (scale 2^63; exact for doubles in [2^-10, 2^10]), the reference optimum is the
// all-cycles + GF(2) greedy optimum over those exact values. The TBB variants run on the vtbb shim's default schedule
// (deterministic); schedules are C03's business.
#define VH_TBB 1
#include <memory>
#include "common/runner.hpp"
#include "common/graphs.hpp"
#include "common/bgl.hpp"
#include "common/variants.hpp"
#include <cmath>

enum Ctr { C_EVAL = 0, C_INPUTS, C_NONTRIV };
typedef __int128 X;     // exact fixed point, scale 2^63
typedef double W;

static X exact_of(double d) {
    int e; double m = std::frexp(d, &e);          // d = m * 2^e, 0.5 <= m < 1
    long long mi = (long long) std::ldexp(m, 53); // 53-bit integer mantissa, exact
    int sh = e - 53 + 63;
    if (sh < 0 || sh > 70) { fprintf(stderr, "weight %g outside the exact fixed-point range\n", d); exit(2); }
    return (X) mi << sh;
}
static long double ld(X x) { return (long double) x / 9223372036854775808.0L; }

struct Cfg { std::vector<int> variants; };

static void run_case(vr::Runner &R, const Cfg &cfg, const vg::EdgeList &el, const std::vector<double> &w, const std::vector<uint64_t> &cyc, int dim,
        uint64_t unit, uint64_t sub, vb::Built<W> &b, bool verbose = false) {
    b.set_weights(w);
    std::vector<X> xw(w.size()); for (size_t i = 0; i < w.size(); ++i) xw[i] = exact_of(w[i]);
    X opt = vg::reference_mcb<X>(cyc, xw, dim).total;
    for (int var : cfg.variants) {
        R.crumb(unit, sub, var);
        vv::CycleList<W> cycles; W ret = 0; std::string exc;
        try { ret = vv::run_exact<W>(var, b, cycles); } catch (std::exception &e) { exc = e.what(); } catch (...) { exc = "unknown"; }
        R.crumb_done();
        R.count(C_EVAL);
        std::string cs = vg::case_string(el, w, std::string("variant=") + vv::variant_name(var));
        const char *site = vv::variant_name(var);
        if (!exc.empty()) { R.violation({site, "exception", cs, exc}); continue; }
        auto chk = vb::check_cycle_set<W>(b, w, cycles, dim);
        if (verbose) printf("%s: returned %.17g, count %zu, %s\n", site, ret, chk.masks.size(), chk.ok ? "valid basis" : chk.msg.c_str());
        if (!chk.ok) { R.violation({site, "invalid-basis:" + chk.cls, cs, chk.msg + " (returned " + vg::fmt_w(ret) + ")"}); continue; }
        X sum = 0; for (uint64_t m : chk.masks) { while (m) { int bit = __builtin_ctzll(m); m &= m - 1; sum += xw[bit]; } }
        long double s = ld(sum), o = ld(opt);
        if (verbose) printf("  exact sum of emitted cycles %.17Lg, exact optimum %.17Lg\n", s, o);
        if (!(std::fabs((long double) ret - s) <= 1e-9L * s) && !(s == 0 && ret == 0)) { R.violation({site, "return-not-sum", cs, "returned " + vg::fmt_w(ret) + " but the emitted cycles weigh " + std::to_string((double) s)}); continue; }
        if (!(s - o <= 1e-9L * o)) R.violation({site, "not-within-1e-9", cs, "emitted basis weighs " + std::to_string((double) s) + ", exact optimum " + std::to_string((double) o)});
    }
}

int main(int argc, char **argv) {
    vr::Args A(argc, argv);
#ifdef PARMCB_LOGGING
    std::cout.setstate(std::ios_base::badbit);      // built against a config.hpp with PARMCB_LOGGING on: the library chats on std::cout (harness output uses stdio)
#endif
    Cfg cfg; cfg.variants = vv::parse_variants(A.get("variants", "signed,fvs,iso,signed_tbb,fvs_tbb,iso_tbb"));
    vr::Runner R;
    R.nworkers = (int) A.geti("workers", 16);
    R.max_viol_per_worker = 200000;     // the known finding of C09 is identified input by input: no violation line may be dropped
    if (A.has("deadline-s")) R.deadline_abs = vr::now_s() + A.getd("deadline-s", 0);
    if (A.has("replay-case")) {
        auto pc = vg::parse_case(A.get("replay-case"));
        cfg.variants = {vv::variant_by_short(pc.get("variant"))};
        int dim = vg::cycle_space_dim(pc.g); auto cyc = vg::all_simple_cycles(pc.g);
        R.worker_id = 0; vb::Built<W> b(pc.g, pc.w);
        run_case(R, cfg, pc.g, pc.w, cyc, dim, 0, 0, b, true);
        if (R.vf) fclose(R.vf);
        uint64_t nv = R.sh->nviol.load(); std::string fn = R.viol_prefix + ".0";
        if (FILE *f = fopen(fn.c_str(), "r")) { char buf[4096]; while (fgets(buf, sizeof buf, f)) fputs(buf, stdout); fclose(f); unlink(fn.c_str()); }
        unlink(R.viol_prefix.c_str());
        printf(nv ? "REPLAY-VIOLATION\n" : "REPLAY-OK\n"); return nv ? 1 : 0;
    }
    std::vector<double> alpha = vg::alphabet(A.get("alpha", "F"));
    int n = (int) A.geti("n", 4);
    int need_len = (int) A.geti("need-cycle-len", 0);      // only graphs that contain a simple cycle with at least this many edges
    int max_m = (int) A.geti("max-m", 62), min_m = (int) A.geti("min-m", 0);
    std::vector<std::string> fams; if (A.has("families")) fams = vr::split(A.get("families"), ',');
    uint64_t total_units = fams.empty() ? vg::num_graphs(n) : fams.size(), seed = (uint64_t) A.geti("seed", 0);
    int orient_mode = (int) A.geti("orient", 0);
    vg::plus_heavy_k2() = A.has("plus-heavy-k2");
    vg::edge_order_mode() = (int) A.geti("eorder", 0);
    auto unit_graph0 = [&](uint64_t u) { return fams.empty() ? vg::graph_from_mask(n, (u + seed) % total_units) : vg::family(fams[(u + seed) % total_units]); };
    auto unit_graph = [&](uint64_t u) { vg::EdgeList g = unit_graph0(u); vg::order_edges(g); vg::orient(g, orient_mode); if (vg::plus_heavy_k2()) { g.e.push_back({g.n, g.n + 1}); g.n += 2; } return g; };
    auto describe = [&](uint64_t u, uint64_t sub, uint64_t var) { vg::EdgeList el = unit_graph(u); std::vector<double> w; vg::weighting(alpha, el.m(), sub, w); return std::make_pair(std::string(vv::variant_name((int) var)), vg::case_string(el, w, std::string("variant=") + vv::variant_name((int) var))); };
    auto work = [&](uint64_t u, uint64_t start_sub) {
        vg::EdgeList el = unit_graph(u);
        int dim = vg::cycle_space_dim(el);
        if (dim == 0) { R.count(C_INPUTS); return; }
        auto cyc = vg::all_simple_cycles(el);
        if (el.m() > max_m || el.m() < min_m) return;
        if (need_len) { bool lc = false; for (uint64_t c : cyc) if (__builtin_popcountll(c) >= need_len) lc = true; if (!lc) return; }
        uint64_t nw = vg::num_weightings(alpha, el.m());
        std::vector<double> w; vg::weighting(alpha, el.m(), 0, w); vb::Built<W> b(el, w);
        for (uint64_t s = start_sub; s < nw; ++s) { if (R.expired()) break; vg::weighting(alpha, el.m(), s, w); R.count(C_INPUTS); R.count(C_NONTRIV); run_case(R, cfg, el, w, cyc, dim, u, s, b); }
    };
    double t0 = vr::now_s();
    A.has("out"); A.require_all_used();
    auto res = R.run(total_units, work, describe);
    double wall = vr::now_s() - t0;
    std::vector<std::string> samples;
    for (uint64_t u : {total_units - 1, total_units / 2 + 3}) { vg::EdgeList el = unit_graph(u % total_units); samples.push_back(describe(u % total_units, vg::num_weightings(alpha, el.m()) / 2 + 1, cfg.variants[0]).second); }
    FILE *o = A.has("out") ? fopen(A.get("out").c_str(), "w") : stdout;
    fprintf(o, "{\"harness\":\"inexact\",\"evaluations\":%" PRIu64 ",\"inputs\":%" PRIu64 ",\"distinct_nontrivial\":%" PRIu64 ",\"units_total\":%" PRIu64 ",\"units_done\":%" PRIu64
            ",\"capped\":%s,\"crashes\":%" PRIu64 ",\"hangs\":%" PRIu64 ",\"nviol\":%" PRIu64 ",\"wall_s\":%.3f,\n\"samples\":[",
            R.counter(C_EVAL), R.counter(C_INPUTS), R.counter(C_NONTRIV), res.units_total, res.units_done, res.capped ? "true" : "false", res.crashes, res.hangs, res.nviol, wall);
    for (size_t i = 0; i < samples.size(); ++i) fprintf(o, "%s\"%s\"", i ? "," : "", vr::json_escape(samples[i]).c_str());
    fprintf(o, "],\n\"violations\":[");
    for (size_t i = 0; i < res.violation_lines.size(); ++i) fprintf(o, "%s\n%s", i ? "," : "", res.violation_lines[i].c_str());
    fprintf(o, "]}\n");
    if (o != stdout) fclose(o);
    return 0;
}
