// Re-entrancy harness (C07, multi-threaded execution by the CALLER): two application threads call the same sequential entry
// points at the same time, each on its own private copy of the input. The library keeps no documented shared state, so
// these calls must not touch common memory: built with ThreadSanitizer, any report is a data race (undefined behaviour),
// and each thread's result must still be the reference optimum. The two threads are started from the main thread and never
// synchronise with each other, so TSan's happens-before analysis flags a conflicting access to hidden static state even
// when the accesses do not overlap in time - the verdict does not depend on the actual interleaving.
#include <memory>
#include "common/runner.hpp"
#include "common/graphs.hpp"
#include "common/bgl.hpp"
#include "common/variants.hpp"
#include <thread>

enum Ctr { C_EVAL = 0, C_INPUTS, C_NONTRIV };
typedef double W;
typedef vb::Built<W> B;

struct Out { double ret[6]; bool valid[6]; double total[6]; std::string err; };

static void caller(B *b, const std::vector<double> *w, int dim, long k, Out *o) {
    for (int var = 0; var < 3; ++var) {
        for (int approx = 0; approx < 2; ++approx) {
            int slot = var * 2 + approx;
            vv::CycleList<W> cycles;
            try { o->ret[slot] = approx ? vv::run_approx<W>(var, *b, (std::size_t) k, cycles) : vv::run_exact<W>(var, *b, cycles); }
            catch (...) { o->err = "exception"; o->valid[slot] = false; continue; }
            auto chk = vb::check_cycle_set<W>(*b, *w, cycles, dim);
            o->valid[slot] = chk.ok; o->total[slot] = chk.total;
        }
    }
}

static void run_case(vr::Runner &R, const vg::EdgeList &el, const std::vector<double> &w, const std::vector<uint64_t> &cyc, int dim, long k, uint64_t unit, uint64_t sub) {
    R.crumb(unit, sub, 0);
    B b1(el, w), b2(el, w);
    Out o1{}, o2{};
    std::thread t1(caller, &b1, &w, dim, k, &o1), t2(caller, &b2, &w, dim, k, &o2);
    t1.join(); t2.join();
    R.crumb_done();
    R.count(C_EVAL, 12);
    auto ref = vg::reference_mcb<double>(cyc, w, dim);
    std::string cs = vg::case_string(el, w, "callers=2;k=" + std::to_string(k));
    for (const Out *o : {&o1, &o2}) for (int slot = 0; slot < 6; ++slot) {
        const char *site = slot % 2 ? vv::approx_name(slot / 2) : vv::variant_name(slot / 2);
        if (!o->err.empty()) { R.violation({site, "exception", cs, "exception under concurrent callers"}); return; }
        if (!o->valid[slot]) { R.violation({site, "concurrent-invalid-basis", cs, "output under two concurrent callers is not a cycle basis"}); return; }
        if (o->ret[slot] != o->total[slot]) { R.violation({site, "concurrent-return-mismatch", cs, "returned value differs from the weight of the emitted cycles under two concurrent callers"}); return; }
        if (slot % 2 == 0 && o->total[slot] != ref.total) { R.violation({site, "concurrent-not-minimum", cs, "weight " + vg::fmt_w(o->total[slot]) + " under two concurrent callers, optimum " + vg::fmt_w(ref.total)}); return; }
        if (slot % 2 == 1 && o->total[slot] > (2 * k - 1) * ref.total) { R.violation({site, "concurrent-ratio", cs, "approximation bound broken under two concurrent callers"}); return; }
    }
}

int main(int argc, char **argv) {
    vr::Args A(argc, argv);
    vr::Runner R;
    R.nworkers = (int) A.geti("workers", 8);
    if (A.has("deadline-s")) R.deadline_abs = vr::now_s() + A.getd("deadline-s", 0);
    long k = A.geti("k", 2);
    if (A.has("replay-case")) {
        auto pc = vg::parse_case(A.get("replay-case"));
        int dim = vg::cycle_space_dim(pc.g); auto cyc = vg::all_simple_cycles(pc.g);
        R.worker_id = 0;
        run_case(R, pc.g, pc.w, cyc, dim, atol(pc.get("k", "2").c_str()), 0, 0);
        if (R.vf) fclose(R.vf);
        uint64_t nv = R.sh->nviol.load(); std::string fn = R.viol_prefix + ".0";
        if (FILE *f = fopen(fn.c_str(), "r")) { char buf[4096]; while (fgets(buf, sizeof buf, f)) fputs(buf, stdout); fclose(f); unlink(fn.c_str()); }
        unlink(R.viol_prefix.c_str());
        printf(nv ? "REPLAY-VIOLATION\n" : "REPLAY-OK\n"); return nv ? 1 : 0;
    }
    std::vector<double> alpha = vg::alphabet(A.get("alpha", "A2"));
    int n = (int) A.geti("n", 4);
    std::vector<std::string> fams; if (A.has("families")) fams = vr::split(A.get("families"), ',');
    uint64_t total_units = fams.empty() ? vg::num_graphs(n) : fams.size(), seed = (uint64_t) A.geti("seed", 0);
    auto unit_graph = [&](uint64_t u) { uint64_t uu = (u + seed) % total_units; return fams.empty() ? vg::graph_from_mask(n, uu) : vg::family(fams[uu]); };
    auto describe = [&](uint64_t u, uint64_t sub, uint64_t) { vg::EdgeList el = unit_graph(u); std::vector<double> w; vg::weighting(alpha, el.m(), sub, w); return std::make_pair(std::string("two concurrent callers"), vg::case_string(el, w, "callers=2;k=" + std::to_string(k))); };
    auto work = [&](uint64_t u, uint64_t start_sub) {
        vg::EdgeList el = unit_graph(u);
        if (el.m() > 62) return;
        int dim = vg::cycle_space_dim(el);
        auto cyc = vg::all_simple_cycles(el);
        uint64_t nw = vg::num_weightings(alpha, el.m());
        std::vector<double> w;
        for (uint64_t s = start_sub; s < nw; ++s) { if (R.expired()) break; vg::weighting(alpha, el.m(), s, w); R.count(C_INPUTS); if (dim >= 1) R.count(C_NONTRIV); run_case(R, el, w, cyc, dim, k, u, s); }
    };
    double t0 = vr::now_s();
    A.has("out"); A.require_all_used();
    auto res = R.run(total_units, work, describe);
    double wall = vr::now_s() - t0;
    FILE *o = A.has("out") ? fopen(A.get("out").c_str(), "w") : stdout;
    fprintf(o, "{\"harness\":\"reentrant\",\"evaluations\":%" PRIu64 ",\"inputs\":%" PRIu64 ",\"distinct_nontrivial\":%" PRIu64 ",\"units_total\":%" PRIu64 ",\"units_done\":%" PRIu64
            ",\"capped\":%s,\"crashes\":%" PRIu64 ",\"hangs\":%" PRIu64 ",\"nviol\":%" PRIu64 ",\"wall_s\":%.3f,\n\"samples\":[\"%s\"],\n\"violations\":[",
            R.counter(C_EVAL), R.counter(C_INPUTS), R.counter(C_NONTRIV), res.units_total, res.units_done, res.capped ? "true" : "false", res.crashes, res.hangs, res.nviol, wall,
            vr::json_escape(describe(total_units - 1, 1, 0).second).c_str());
    for (size_t i = 0; i < res.violation_lines.size(); ++i) fprintf(o, "%s\n%s", i ? "," : "", res.violation_lines[i].c_str());
    fprintf(o, "]}\n");
    if (o != stdout) fclose(o);
    return 0;
}
