// C10 harness (flavour H): every DIMACS text of a bounded grammar through read_dimacs_from_file (fmemopen),
// compared field by field with the generator's model; and the three validators on every small multigraph.
#include <unistd.h>
#include "common/runner.hpp"
#include <boost/graph/adjacency_list.hpp>
#include <cstring>
#include <system_error>
#include <parmcb/config.hpp>
#include <parmcb/util.hpp>

enum { C_EVAL = 0, C_NONTRIV };
typedef boost::adjacency_list<boost::vecS, boost::vecS, boost::undirectedS, boost::no_property, boost::property<boost::edge_weight_t, double>> Graph;
// the reader is a template over the graph type: the same texts are also read into graphs whose edge_weight property is not
// the first (or only) edge property, and with a list-based out-edge container (--graph-type 1 / 2)
typedef boost::adjacency_list<boost::vecS, boost::vecS, boost::undirectedS, boost::no_property,
        boost::property<boost::edge_index_t, std::size_t, boost::property<boost::edge_weight_t, double>>> GraphIW;
typedef boost::adjacency_list<boost::listS, boost::vecS, boost::undirectedS, boost::property<boost::vertex_name_t, int>,
        boost::property<boost::edge_weight_t, double, boost::property<boost::edge_index_t, int>>> GraphLWI;
static int g_graph_type = 0;
// How the text reaches the reader (it takes a FILE*, not a file name): 0 = memory stream (fmemopen), 1 = the read end of a PIPE
// (not seekable: ftell / fseek / rewind fail - what `cat g | mcb-dimacs /dev/stdin` or a process substitution hands over),
// 2 = a regular temporary file opened for update (seekable, positioned at its start).
static int g_stream = 0;
static FILE *open_text(const std::string &txt) {
    FILE *fp = nullptr;
    if (g_stream == 1 && txt.size() < 60000) {        // below the pipe capacity: the whole text is written before the reader starts
        int fd[2]; if (pipe(fd) != 0) { fprintf(stderr, "pipe failed\n"); exit(2); }
        size_t off = 0; while (off < txt.size()) { ssize_t k = write(fd[1], txt.data() + off, txt.size() - off); if (k <= 0) { fprintf(stderr, "pipe write failed\n"); exit(2); } off += (size_t) k; }
        close(fd[1]);
        fp = fdopen(fd[0], "r");
    } else if (g_stream == 2) {
        fp = tmpfile();
        if (fp) { if (!txt.empty() && fwrite(txt.data(), 1, txt.size(), fp) != txt.size()) { fprintf(stderr, "tmpfile write failed\n"); exit(2); } rewind(fp); }
    } else fp = fmemopen((void*) txt.data(), txt.size(), "r");
    if (!fp) { fprintf(stderr, "opening the text stream failed\n"); exit(2); }
    return fp;
}

struct ELine { char kind; int u, v; int wi; };            // wi indexes WTXT; 0 = omitted
static const char *WTXT[] = {"", "1", "15", "2.5", "100", "1.5e1", "0.125", "7", "2.5E-1", "1e+2"};     // incl. exponent notation (what %g / operator<< print)
static const double WVAL[] = {1, 1, 15, 2.5, 100, 15, 0.125, 7, 0.25, 100};
static const char *COMMENT[] = {"", "c a comment line\n", "# e 1 2 3\n"};   // the '#' comment deliberately looks like an edge line

struct Text { int n; std::vector<ELine> lines; std::vector<int> comments; bool final_newline; int decl_m; };

static std::string render(const Text &t) {
    std::string s;
    s += COMMENT[t.comments[0]];
    s += "p edge " + std::to_string(t.n) + " " + std::to_string(t.decl_m) + "\n";
    for (size_t i = 0; i < t.lines.size(); ++i) {
        s += COMMENT[t.comments[i + 1]];
        const ELine &l = t.lines[i];
        s += std::string(1, l.kind) + " " + std::to_string(l.u) + " " + std::to_string(l.v);
        if (l.wi) s += std::string(" ") + WTXT[l.wi];
        s += "\n";
    }
    s += COMMENT[t.comments[t.lines.size() + 1]];
    if (!t.final_newline && !s.empty() && s.back() == '\n') s.pop_back();
    return s;
}
static std::string hex(const std::string &s) { static const char *d = "0123456789abcdef"; std::string o; for (unsigned char c : s) { o += d[c >> 4]; o += d[c & 15]; } return o; }
static std::string unhex(const std::string &h) { std::string o; for (size_t i = 0; i + 1 < h.size(); i += 2) o += (char) strtol(h.substr(i, 2).c_str(), nullptr, 16); return o; }

// returns "" if the reader's graph equals the model, else class + message
template<class Graph>
static std::string check_text_t(const Text &t, const std::string &txt, std::string &cls, bool verbose = false) {
    bool expect_throw = false;
    for (auto &l : t.lines) if (l.u > t.n || l.v > t.n || l.u < 1 || l.v < 1) expect_throw = true;
    Graph g;
    FILE *fp = open_text(txt);
    bool threw = false, wrong_exc = false;
    try { parmcb::read_dimacs_from_file(fp, g); }
    catch (std::system_error &) { threw = true; }
    catch (...) { threw = true; wrong_exc = true; }
    fclose(fp);
    if (verbose) { printf("read: n=%zu m=%zu threw=%d\n", boost::num_vertices(g), boost::num_edges(g), threw);
        typename boost::graph_traits<Graph>::edge_iterator ei, ee; for (boost::tie(ei, ee) = boost::edges(g); ei != ee; ++ei) printf("  edge %zu-%zu w=%g\n", boost::source(*ei, g), boost::target(*ei, g), boost::get(boost::edge_weight, g, *ei)); }
    if (expect_throw) {
        if (!threw) { cls = "undeclared-vertex-accepted"; return "an edge names an undeclared vertex but no error was raised"; }
        (void) wrong_exc;      // the property asks for "an error"; the exception type is not part of the contract
        return "";
    }
    if (threw) { cls = "spurious-error"; return "reader raised an error on a well-formed text"; }
    if ((int) boost::num_vertices(g) != t.n) { cls = "vertex-count"; return "graph has " + std::to_string(boost::num_vertices(g)) + " vertices, problem line declares " + std::to_string(t.n); }
    if (boost::num_edges(g) != t.lines.size()) { cls = "edge-count"; return "graph has " + std::to_string(boost::num_edges(g)) + " edges, text has " + std::to_string(t.lines.size()) + " edge lines"; }
    typename boost::graph_traits<Graph>::edge_iterator ei, ee; size_t i = 0;
    for (boost::tie(ei, ee) = boost::edges(g); ei != ee; ++ei, ++i) {
        int a = (int) boost::source(*ei, g), b = (int) boost::target(*ei, g);
        const ELine &l = t.lines[i];
        if (!((a == l.u - 1 && b == l.v - 1) || (a == l.v - 1 && b == l.u - 1))) { cls = "endpoints"; return "edge #" + std::to_string(i) + " joins " + std::to_string(a + 1) + "-" + std::to_string(b + 1) + ", line says " + std::to_string(l.u) + "-" + std::to_string(l.v); }
        double w = boost::get(boost::edge_weight, g, *ei);
        if (w != WVAL[l.wi]) { cls = "weight"; char buf[128]; snprintf(buf, sizeof buf, "edge #%zu has weight %g, line says %s", i, w, l.wi ? WTXT[l.wi] : "(omitted => 1)"); return buf; }
    }
    return "";
}

static std::string check_text(const Text &t, const std::string &txt, std::string &cls, bool verbose = false) {
    if (g_graph_type == 1) return check_text_t<GraphIW>(t, txt, cls, verbose);
    if (g_graph_type == 2) return check_text_t<GraphLWI>(t, txt, cls, verbose);
    return check_text_t<Graph>(t, txt, cls, verbose);
}

// ---- validators on small multigraphs ----
static const double VW[] = {-1, 0, 0.5, 1};
static std::string check_validators(int n, const std::vector<std::pair<int, int>> &es, const std::vector<int> &wi, std::string &cls) {
    Graph g(n);
    bool loops = false, nonpos = false, multi = false;
    for (size_t i = 0; i < es.size(); ++i) {
        boost::add_edge(es[i].first, es[i].second, VW[wi[i]], g);
        if (es[i].first == es[i].second) loops = true;
        if (VW[wi[i]] <= 0) nonpos = true;
        for (size_t j = 0; j < i; ++j) if ((es[i] == es[j]) || (es[i].first == es[j].second && es[i].second == es[j].first)) multi = true;
    }
    if (parmcb::has_loops(g) != loops) { cls = "has_loops"; return std::string("has_loops returned ") + (loops ? "false" : "true"); }
    if (parmcb::has_non_positive_weights(g, boost::get(boost::edge_weight, g)) != nonpos) { cls = "has_non_positive_weights"; return std::string("has_non_positive_weights returned ") + (nonpos ? "false" : "true"); }
    if (!loops && parmcb::has_multiple_edges(g) != multi) { cls = "has_multiple_edges"; return std::string("has_multiple_edges returned ") + (multi ? "false" : "true"); }
    return "";
}

int main(int argc, char **argv) {
    vr::Args A(argc, argv);
    vr::Runner R;
    R.nworkers = (int) A.geti("workers", 16);
    if (A.has("deadline-s")) R.deadline_abs = vr::now_s() + A.getd("deadline-s", 0);
    if (A.has("replay-case")) {
        std::map<std::string, std::string> kv;
        for (auto &p : vr::split(A.get("replay-case"), ';')) { auto eq = p.find('='); if (eq != std::string::npos) kv[p.substr(0, eq)] = p.substr(eq + 1); }
        std::string cls, err;
        if (kv.count("gt")) g_graph_type = atoi(kv["gt"].c_str());
        if (kv.count("st")) g_stream = atoi(kv["st"].c_str());
        if (kv.count("dimacs_hex")) {
            // model is re-derived from the rendered text's generator parameters
            Text t; t.n = atoi(kv["n"].c_str()); t.final_newline = kv["nl"] == "1"; t.decl_m = atoi(kv["dm"].c_str());
            for (auto &ls : vr::split(kv["lines"], ',')) { if (ls.empty()) continue; ELine l; int wi; char k; sscanf(ls.c_str(), "%c.%d.%d.%d", &k, &l.u, &l.v, &wi); l.kind = k; l.wi = wi; t.lines.push_back(l); }
            for (auto &c : vr::split(kv["comments"], '.')) t.comments.push_back(atoi(c.c_str()));
            std::string txt = unhex(kv["dimacs_hex"]);
            printf("---- text ----\n%s\n--------------\n", txt.c_str());
            err = check_text(t, txt, cls, true);
        } else {
            int n = atoi(kv["n"].c_str()); std::vector<std::pair<int, int>> es; std::vector<int> wi;
            for (auto &e : vr::split(kv["medges"], ',')) { if (e.empty()) continue; int a, b, w; sscanf(e.c_str(), "%d-%d:%d", &a, &b, &w); es.push_back({a, b}); wi.push_back(w); }
            err = check_validators(n, es, wi, cls);
        }
        if (!err.empty()) { printf("{\"class\":\"%s\",\"msg\":\"%s\"}\nREPLAY-VIOLATION\n", cls.c_str(), vr::json_escape(err).c_str()); return 1; }
        printf("REPLAY-OK\n"); return 0;
    }
    std::string mode = A.get("mode", "reader");
    g_graph_type = (int) A.geti("graph-type", 0);
    g_stream = (int) A.geti("stream", 0);
    int L = (int) A.geti("lines", 2);
    int nw = (int) A.geti("nweights", 6);           // number of weight spellings used (prefix of WTXT)
    int maxv = (int) A.geti("maxv", 4);             // vertex names minv..maxv (declared n ranges over 0..3; names < 1 or > n are undeclared)
    int minv = (int) A.geti("minv", 0);
    int nv = maxv - minv + 1;
    int max_comments = (int) A.geti("max-comments", 99);
    uint64_t seed = (uint64_t) A.geti("seed", 0);
    std::vector<std::string> samples;

    uint64_t total_units; vr::Runner::Work work;
    auto text_case2 = [&](const Text &t, const std::string &txt) {
        std::string lines, comments;
        for (auto &l : t.lines) { lines += (lines.empty() ? "" : ",") + std::string(1, l.kind) + "." + std::to_string(l.u) + "." + std::to_string(l.v) + "." + std::to_string(l.wi); }
        for (size_t i = 0; i < t.comments.size(); ++i) comments += (i ? "." : "") + std::to_string(t.comments[i]);
        return "n=" + std::to_string(t.n) + ";dm=" + std::to_string(t.decl_m) + ";nl=" + (t.final_newline ? "1" : "0") + ";lines=" + lines + ";comments=" + comments + (g_graph_type ? ";gt=" + std::to_string(g_graph_type) : std::string()) + (g_stream ? ";st=" + std::to_string(g_stream) : std::string()) + ";dimacs_hex=" + hex(txt);
    };
    auto text_case = [&](const Text &t) { return text_case2(t, render(t)); };
    if (mode == "reader") {
        // unit = (n, number of lines l, first line spec) ; inside: remaining lines x comments x newline
        uint64_t per_line = 2ull * nv * nv * nw;
        struct U { int n, l; uint64_t first; };
        std::vector<U> units;
        for (int n = 0; n <= 3; ++n) for (int l = 0; l <= L; ++l) { if (l == 0) units.push_back({n, 0, 0}); else for (uint64_t f = 0; f < per_line; ++f) units.push_back({n, l, f}); }
        total_units = units.size();
        auto decode = [=](uint64_t x) { ELine e; e.kind = x % 2 ? 'a' : 'e'; x /= 2; e.u = minv + (int) (x % nv); x /= nv; e.v = minv + (int) (x % nv); x /= nv; e.wi = (int) (x % nw); return e; };
        work = [=, &R](uint64_t ui, uint64_t) {
            const U &u = units[(ui + seed) % units.size()];
            uint64_t rest = 1; for (int i = 1; i < u.l; ++i) rest *= per_line;
            int npos = u.l + 2;
            uint64_t ncom = 1; for (int i = 0; i < npos; ++i) ncom *= 3;
            for (uint64_t r = 0; r < rest; ++r) {
                Text t; t.n = u.n; t.decl_m = u.l;
                if (u.l >= 1) t.lines.push_back(decode(u.first));
                uint64_t x = r; for (int i = 1; i < u.l; ++i) { t.lines.push_back(decode(x % per_line)); x /= per_line; }
                for (uint64_t c = 0; c < ncom; ++c) {
                    t.comments.assign(npos, 0); uint64_t y = c; int cnt = 0; for (int i = 0; i < npos; ++i) { t.comments[i] = y % 3; y /= 3; cnt += t.comments[i] != 0; }
                    if (cnt > max_comments) continue;
                    // the edge count ANNOUNCED by the problem line is part of the text, not of the graph: the statement is "one edge per
                    // 'e'/'a' line". Texts without comments are rendered with every announced count in {l, 0, 1, l-1, l+1, 2l}.
                    std::vector<int> dms = {u.l};
                    if (cnt == 0) for (int d : {0, 1, u.l - 1, u.l + 1, 2 * u.l}) if (d >= 0 && std::find(dms.begin(), dms.end(), d) == dms.end()) dms.push_back(d);
                    for (int dm : dms) for (int nl = 0; nl < 2; ++nl) {
                        t.decl_m = dm;
                        t.final_newline = nl;
                        std::string txt = render(t);
                        if (txt.empty()) continue;
                        R.crumb_text(text_case(t));
                        std::string cls, err = check_text(t, txt, cls);
                        R.crumb_done();
                        R.count(C_EVAL); if (u.l >= 1) R.count(C_NONTRIV);
                        if (!err.empty()) R.violation({"read_dimacs_from_file", cls, text_case(t), err + " :: text=" + txt});
                    }
                }
            }
        };
        Text s1; s1.n = 3; s1.decl_m = 2; s1.lines = {{'e', 1, 2, 2}, {'a', 2, 3, 0}}; s1.comments = {1, 0, 2, 0}; s1.final_newline = false;
        samples.push_back(render(s1));
        Text s2; s2.n = 2; s2.decl_m = 1; s2.lines = {{'e', 1, 4, 3}}; s2.comments = {0, 0, 0}; s2.final_newline = true;
        samples.push_back(render(s2));
    } else if (mode == "longlines") {
        // One line of the text is stretched to EVERY length below the reader's 1024-byte buffer: a comment ('c' or '#') at each
        // of the four positions, or an edge line whose decimal weight is padded with zeros (first / middle / last edge line).
        // Lengths: 1..1022 characters followed by a newline, and for a final line without newline up to 1023 characters.
        struct U { int what; int nl; };       // what: 0..3 comment position with 'c', 4..7 with '#', 8..10 padded edge line 0..2
        std::vector<U> units; for (int w = 0; w <= 10; ++w) for (int nl = 0; nl < 2; ++nl) units.push_back({w, nl});
        total_units = units.size();
        work = [=, &R](uint64_t ui, uint64_t) {
            const U &u = units[(ui + seed) % units.size()];
            Text t; t.n = 3; t.decl_m = 3; t.lines = {{'e', 1, 2, 3}, {'a', 2, 3, 3}, {'e', 1, 3, 3}}; t.comments = {0, 0, 0, 0, 0}; t.final_newline = u.nl;
            if (u.what >= 8) t.lines[(u.what - 8 + 1) % 3].wi = 0;       // a neighbouring edge line has its weight omitted
            for (int C = 1; C <= 1023; ++C) {
                std::vector<std::string> L = {"p edge 3 3", "e 1 2 2.5", "a 2 3 2.5", "e 1 3 2.5"};
                for (int i = 0; i < 3; ++i) if (t.lines[i].wi == 0) L[i + 1] = L[i + 1].substr(0, 5);
                int long_idx;
                if (u.what < 8) {
                    int pos = u.what % 4; char k = u.what < 4 ? 'c' : '#';
                    std::string c(1, k); if (C >= 2) c += ' '; while ((int) c.size() < C) c += (c.size() % 7 == 0 ? 'e' : c.size() % 5 == 0 ? ' ' : '1');
                    int at = pos == 0 ? 0 : pos == 1 ? 1 : pos == 2 ? 3 : 4;
                    L.insert(L.begin() + at, c); long_idx = at;
                } else {
                    long_idx = 1 + (u.what - 8);
                    if (C < (int) L[long_idx].size()) continue;
                    while ((int) L[long_idx].size() < C) L[long_idx] += '0';
                }
                bool long_is_last = long_idx == (int) L.size() - 1;
                if (C == 1023 && !(long_is_last && !u.nl)) continue;      // 1023 characters + newline would not be "shorter than the buffer"
                std::string txt; for (size_t i = 0; i < L.size(); ++i) { txt += L[i]; if (i + 1 < L.size() || u.nl) txt += "\n"; }
                std::string cs = text_case2(t, txt) + ";longline=" + std::to_string(C);
                R.crumb_text(cs);
                std::string cls, err = check_text(t, txt, cls);
                R.crumb_done();
                R.count(C_EVAL); R.count(C_NONTRIV);
                if (!err.empty()) R.violation({"read_dimacs_from_file", cls, cs, err + " :: one line of the text has " + std::to_string(C) + " characters"});
            }
        };
        samples.push_back("p edge 3 3 / c <1022 characters> / e 1 2 2.5 / a 2 3 2.5 / e 1 3 2.5");
        samples.push_back("p edge 3 3 / e 1 2 2.5 / a 2 3 / e 1 3 2.5000...0 (1023 characters, no final newline)");
    } else if (mode == "validators-large") {
        // size thresholds of the validators: two hubs 0 and 1 with d further neighbours each (degree d + 1), the hub-hub edge
        // first; ONE offending edge - a second copy of the hub-hub edge (either orientation), a copy of a hub-leaf edge, a
        // self-loop at a hub, or a non-positive weight - is inserted at every position of the edge sequence, for every d in
        // 0..40 and around 64 / 128 / 256; the clean graph is checked as well.
        std::vector<int> ds; for (int d = 0; d <= 40; ++d) ds.push_back(d); for (int d : {62, 63, 64, 65, 66, 127, 128, 129, 255, 256, 257}) ds.push_back(d);
        total_units = ds.size();
        work = [=, &R](uint64_t ui, uint64_t) {
            int d = ds[(ui + seed) % ds.size()];
            int n = 2 + 2 * d;
            std::vector<std::pair<int, int>> base; base.push_back({0, 1});
            for (int i = 0; i < d; ++i) base.push_back({0, 2 + i});
            for (int i = 0; i < d; ++i) base.push_back({1, 2 + d + i});
            struct Off { int kind; };      // 0 none, 1 dup hub-hub same orientation, 2 dup hub-hub reversed, 3 dup of the last hub-leaf edge reversed, 4 self-loop at hub 0, 5 weight 0 on an extra leaf edge
            for (int kind = 0; kind <= 5; ++kind) {
                if (kind == 3 && d == 0) continue;
                for (std::size_t pos = 0; pos <= base.size(); ++pos) {
                    if (kind == 0 && pos > 0) break;
                    Graph g(n + 1);
                    bool loops = false, multi = false, nonpos = false;
                    auto put = [&](int a, int b, double w) { boost::add_edge(a, b, w, g); };
                    for (std::size_t i = 0; i <= base.size(); ++i) {
                        if (i == pos && kind) {
                            if (kind == 1) { put(0, 1, 1); multi = true; }
                            else if (kind == 2) { put(1, 0, 1); multi = true; }
                            else if (kind == 3) { put(base.back().second, base.back().first, 1); multi = true; }
                            else if (kind == 4) { put(0, 0, 1); loops = true; }
                            else { put(0, n, 0.0); nonpos = true; }
                        }
                        if (i < base.size()) put(base[i].first, base[i].second, 1);
                    }
                    std::string cs = "mode=validators-large;d=" + std::to_string(d) + ";offender=" + std::to_string(kind) + ";pos=" + std::to_string(pos);
                    R.crumb_text(cs);
                    bool gl = parmcb::has_loops(g), gn = parmcb::has_non_positive_weights(g, boost::get(boost::edge_weight, g));
                    bool gm = loops ? multi : parmcb::has_multiple_edges(g);
                    R.crumb_done();
                    R.count(C_EVAL); R.count(C_NONTRIV);
                    if (gl != loops) R.violation({"has_loops", "validator", cs, std::string("has_loops returned ") + (gl ? "true" : "false")});
                    if (gn != nonpos) R.violation({"has_non_positive_weights", "validator", cs, std::string("has_non_positive_weights returned ") + (gn ? "true" : "false")});
                    if (gm != multi) R.violation({"has_multiple_edges", "validator", cs, std::string("has_multiple_edges returned ") + (gm ? "true" : "false") + " (hub degree " + std::to_string(d + 1) + ")"});
                }
            }
        };
        samples.push_back("mode=validators-large;d=33;offender=2;pos=67 (second copy of the hub-hub edge, reversed, after all other edges)");
    } else {
        int ME = (int) A.geti("max-edges", 3);
        // unit = (n, edge count, first edge); inside: remaining edges x weights
        struct U { int n, k, first; };
        std::vector<U> units;
        for (int n = 1; n <= 3; ++n) { int np = n * (n + 1) / 2; for (int k = 0; k <= ME; ++k) { if (k == 0) units.push_back({n, 0, 0}); else for (int f = 0; f < np; ++f) units.push_back({n, k, f}); } }
        total_units = units.size();
        work = [=, &R](uint64_t ui, uint64_t) {
            const U &u = units[(ui + seed) % units.size()];
            std::vector<std::pair<int, int>> pairs; for (int a = 0; a < u.n; ++a) for (int b = a; b < u.n; ++b) pairs.push_back({a, b});
            uint64_t np = pairs.size(), rest = 1; for (int i = 1; i < u.k; ++i) rest *= np;
            uint64_t nwt = 1; for (int i = 0; i < u.k; ++i) nwt *= 4;
            for (uint64_t r = 0; r < rest; ++r) {
                std::vector<std::pair<int, int>> es; if (u.k >= 1) es.push_back(pairs[u.first]);
                uint64_t x = r; for (int i = 1; i < u.k; ++i) { es.push_back(pairs[x % np]); x /= np; }
                // orientation of each edge as inserted: also try reversed endpoints for the second edge onwards (parallel edge given as v-u)
                for (uint64_t w = 0; w < nwt; ++w) for (int flip = 0; flip < (u.k >= 2 ? 2 : 1); ++flip) {
                    std::vector<int> wi(u.k); uint64_t y = w; for (int i = 0; i < u.k; ++i) { wi[i] = y % 4; y /= 4; }
                    auto es2 = es; if (flip) for (size_t i = 1; i < es2.size(); ++i) std::swap(es2[i].first, es2[i].second);
                    std::string cs = "n=" + std::to_string(u.n) + ";medges=";
                    for (int i = 0; i < u.k; ++i) cs += (i ? "," : "") + std::to_string(es2[i].first) + "-" + std::to_string(es2[i].second) + ":" + std::to_string(wi[i]);
                    R.crumb_text(cs);
                    std::string cls, err = check_validators(u.n, es2, wi, cls);
                    R.crumb_done();
                    R.count(C_EVAL); if (u.k >= 1) R.count(C_NONTRIV);
                    if (!err.empty()) R.violation({cls, "validator", cs, err});
                }
            }
        };
        samples.push_back("n=3;medges=0-1:3,1-0:2,2-2:0   (weights index {-1,0,0.5,1})");
    }
    auto describe = [&](uint64_t, uint64_t, uint64_t) { return std::make_pair(std::string(mode == "reader" ? "read_dimacs_from_file" : "validators"), std::string("?")); };
    double t0 = vr::now_s();
    A.has("out"); A.require_all_used();
    auto res = R.run(total_units, work, describe);
    double wall = vr::now_s() - t0;
    FILE *o = A.has("out") ? fopen(A.get("out").c_str(), "w") : stdout;
    fprintf(o, "{\"harness\":\"dimacs\",\"evaluations\":%" PRIu64 ",\"distinct_nontrivial\":%" PRIu64 ",\"units_total\":%" PRIu64 ",\"units_done\":%" PRIu64
            ",\"capped\":%s,\"crashes\":%" PRIu64 ",\"hangs\":%" PRIu64 ",\"nviol\":%" PRIu64 ",\"wall_s\":%.3f,\n\"samples\":[",
            R.counter(C_EVAL), R.counter(C_NONTRIV), res.units_total, res.units_done, res.capped ? "true" : "false", res.crashes, res.hangs, res.nviol, wall);
    for (size_t i = 0; i < samples.size(); ++i) fprintf(o, "%s\"%s\"", i ? "," : "", vr::json_escape(samples[i]).c_str());
    fprintf(o, "],\n\"violations\":[");
    for (size_t i = 0; i < res.violation_lines.size(); ++i) fprintf(o, "%s\n%s", i ? "," : "", res.violation_lines[i].c_str());
    fprintf(o, "]}\n");
    if (o != stdout) fclose(o);
    return 0;
}
