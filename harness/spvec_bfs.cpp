#include <iostream>
// C17 (SpVecGF2) and the SpVecFP half of C18: explicit-state breadth-first search over the REAL classes.
//
// State     = the concrete private vectors of R registers (read and restored with -fno-access-control).
// Transition= one public operation applied to the real objects (constructions happen by destroy + placement new).
// Invariant = canonical form (strictly increasing coordinates, values in 1..p-1) and equality with a dense
//             reference model; after every transition every observation (size, iteration, all dot products,
//             products with every index set) is compared with the reference.
// The search runs until no new state appears, so `states`/`transitions` are exact counts of the reachable space
// for the given dimension; every violation carries the operation history from the all-empty state, and
// --replay-case re-executes exactly that history on fresh objects (no state restoration involved).
#include "common/runner.hpp"
#include <cassert>
#include <cmath>
#include <cstddef>
#include <stdexcept>
#include <boost/multiprecision/cpp_int.hpp>
#include <parmcb/config.hpp>
#include <parmcb/spvecgf2.hpp>
#include <parmcb/spvecfp.hpp>
#include <deque>
#include <limits>
#include <memory>
#include <map>
#include <new>
#include <set>

static const std::size_t HUGE_COORD = (std::size_t) 1 << 40;   // the "one huge coordinate" of the alphabet

struct Op { int kind, i, j, k; long arg; };
enum { K_UNIT, K_SET, K_COPYCTOR, K_MOVECTOR, K_COPYASSIGN, K_MOVEASSIGN, K_ADD, K_ADDEQ, K_CLEAR, K_SCALE, K_SCALEEQ, K_DEFCTOR };

static std::string op_str(const Op &o) {
    char b[128];
    switch (o.kind) {
    case K_UNIT: snprintf(b, sizeof b, "r%d=unit(%ld)", o.i, o.arg); break;
    case K_SET: snprintf(b, sizeof b, "r%d=fromset(0x%lx)", o.i, o.arg); break;
    case K_COPYCTOR: snprintf(b, sizeof b, "new r%d(copy r%d)", o.i, o.j); break;
    case K_MOVECTOR: snprintf(b, sizeof b, "new r%d(move r%d)", o.i, o.j); break;
    case K_COPYASSIGN: snprintf(b, sizeof b, "r%d=r%d", o.i, o.j); break;
    case K_MOVEASSIGN: snprintf(b, sizeof b, "r%d=move(r%d)", o.i, o.j); break;
    case K_ADD: snprintf(b, sizeof b, "r%d=r%d+r%d", o.i, o.j, o.k); break;
    case K_ADDEQ: snprintf(b, sizeof b, "r%d+=r%d", o.i, o.j); break;
    case K_CLEAR: snprintf(b, sizeof b, "r%d.clear()", o.i); break;
    case K_SCALE: snprintf(b, sizeof b, "r%d=r%d*%ld", o.i, o.j, o.arg); break;
    case K_SCALEEQ: snprintf(b, sizeof b, "r%d*=%ld", o.i, o.arg); break;
    case K_DEFCTOR: snprintf(b, sizeof b, o.arg ? "new r%d() [default constructor, F_3]" : "new r%d(p)", o.i); break;
    default: snprintf(b, sizeof b, "?");
    }
    return b;
}

// ------------------------------------------------------------------ GF(2) machine
// Abstract coordinates 0..D-1 are realised as GROUPS of real coordinates (sizes given by the configuration; a group of
// size 1 is a plain coordinate; the last group of the plain configuration is the single huge coordinate 2^40). Every
// vector that the operation alphabet can build is a union of whole groups, so the reachable abstract space stays 2^D
// per register while the concrete vectors get long (this is how vectors with dozens of ones, long tails and
// interleaved operands are reached without leaving exhaustive search).
// U = the coordinate type (the class is a template over it; the library uses std::size_t, a user may pick a narrower type)
template<class U>
struct GF2MachineT {
    typedef parmcb::SpVecGF2<U> V;
    typedef std::vector<std::vector<std::size_t>> State;     // concrete `ones` per register
    int R, D;                                                // registers, number of groups
    std::vector<std::vector<std::size_t>> group;             // real coordinates of each group (sorted)
    std::string cfgname;
    std::vector<Op> ops;
    alignas(V) unsigned char storage[4][sizeof(V)];
    V *reg(int i) { return reinterpret_cast<V*>(storage[i]); }
    std::vector<uint32_t> ref;                               // dense reference over groups
    std::vector<char> unspec;                                // register was moved from: content unspecified until it is overwritten
    std::vector<std::vector<std::size_t>> concrete;          // mask -> sorted real coordinates
    std::vector<std::set<U>> sets;                           // mask -> std::set of real coordinates
    std::string name() const { return "SpVecGF2"; }

    // sizes: group sizes; interleaved: real coordinates dealt round-robin instead of consecutively; huge: 1 = last group is {2^40}
    // (2^31+5 for 32-bit U), 2 = last group is the largest value of U (the coordinate a sentinel would collide with)
    GF2MachineT(int R, const std::vector<int> &sizes, bool interleaved, int huge, const std::string &cfgname) : R(R), D((int) sizes.size()), cfgname(cfgname), ref(R, 0), unspec(R, 0) {
        group.resize(D);
        std::vector<int> left = sizes; std::size_t next = 0; int total = 0; for (int x : sizes) total += x;
        if (huge) { group[D - 1].push_back(huge == 2 ? (std::size_t) std::numeric_limits<U>::max() : sizeof(U) >= 8 ? HUGE_COORD : (std::size_t) 0x80000005ul); total -= left[D - 1]; left[D - 1] = 0; }
        if (!interleaved) { for (int c = 0; c < D; ++c) for (int k = 0; k < left[c]; ++k) group[c].push_back(next++); }
        else { int placed = 0; while (placed < total) for (int c = 0; c < D; ++c) if (left[c] > 0) { group[c].push_back(next++); --left[c]; ++placed; } }
        concrete.resize(1u << D); sets.resize(1u << D);
        for (uint32_t m = 0; m < (1u << D); ++m) { for (int c = 0; c < D; ++c) if (m >> c & 1) for (auto x : group[c]) sets[m].insert((U) x); concrete[m].assign(sets[m].begin(), sets[m].end()); }
        for (int i = 0; i < R; ++i) new (storage[i]) V();
        for (int i = 0; i < R; ++i) for (int c = 0; c < D; ++c) if (group[c].size() == 1) ops.push_back({K_UNIT, i, 0, 0, c});
        for (int i = 0; i < R; ++i) for (long m = 0; m < (1 << D); ++m) ops.push_back({K_SET, i, 0, 0, m});
        for (int i = 0; i < R; ++i) ops.push_back({K_DEFCTOR, i, 0, 0, 0});
        for (int i = 0; i < R; ++i) for (int j = 0; j < R; ++j) if (i != j) { ops.push_back({K_COPYCTOR, i, j, 0, 0}); ops.push_back({K_MOVECTOR, i, j, 0, 0}); }
        for (int i = 0; i < R; ++i) for (int j = 0; j < R; ++j) { ops.push_back({K_COPYASSIGN, i, j, 0, 0}); ops.push_back({K_MOVEASSIGN, i, j, 0, 0}); ops.push_back({K_ADDEQ, i, j, 0, 0}); }
        for (int i = 0; i < R; ++i) for (int j = 0; j < R; ++j) for (int k = 0; k < R; ++k) ops.push_back({K_ADD, i, j, k, 0});
        for (int i = 0; i < R; ++i) ops.push_back({K_CLEAR, i, 0, 0, 0});
    }
    ~GF2MachineT() { for (int i = 0; i < R; ++i) reg(i)->~V(); }

    // the state carries one extra pseudo-register: the "unspecified" flags (a moved-from register keeps whatever concrete
    // content the move left behind - it is part of the state because later overwriting operations start from it)
    State initial() { State s(R + 1); s[R].assign(R, 0); return s; }
    State read() { State s(R + 1); for (int i = 0; i < R; ++i) s[i].assign(reg(i)->ones.begin(), reg(i)->ones.end()); for (int i = 0; i < R; ++i) s[R].push_back(unspec[i]); return s; }
    uint32_t mask_of(const std::vector<std::size_t> &v) const { uint32_t m = 0; for (int c = 0; c < D; ++c) if (std::binary_search(v.begin(), v.end(), group[c][0])) m |= 1u << c; return m; }
    void restore(const State &s) { for (int i = 0; i < R; ++i) { reg(i)->~V(); new (storage[i]) V(); reg(i)->ones.assign(s[i].begin(), s[i].end()); unspec[i] = (char) s[R][i]; ref[i] = unspec[i] ? 0 : mask_of(s[i]); } }
    // an operation is enabled iff every register it READS is specified; registers that are only overwritten may be moved-from
    bool enabled(const Op &o) const {
        switch (o.kind) {
        case K_COPYCTOR: case K_MOVECTOR: return !unspec[o.j];
        case K_COPYASSIGN: case K_MOVEASSIGN: return !unspec[o.j];
        case K_ADD: return !unspec[o.j] && !unspec[o.k];
        case K_ADDEQ: return !unspec[o.i] && !unspec[o.j];
        default: return true;      // unit / set / default construction, clear(): valid on any (also moved-from) object
        }
    }
    int parity(uint32_t m) const { std::size_t t = 0; for (int c = 0; c < D; ++c) if (m >> c & 1) t += group[c].size(); return (int) (t & 1); }

    void apply(const Op &o) {
        V *ri = reg(o.i);
        switch (o.kind) {
        case K_UNIT: ri->~V(); new (storage[o.i]) V((U) group[o.arg][0]); ref[o.i] = 1u << o.arg; unspec[o.i] = 0; break;
        case K_SET: ri->~V(); new (storage[o.i]) V(sets[o.arg]); ref[o.i] = (uint32_t) o.arg; unspec[o.i] = 0; break;
        case K_DEFCTOR: ri->~V(); new (storage[o.i]) V(); ref[o.i] = 0; unspec[o.i] = 0; break;
        case K_COPYCTOR: ri->~V(); new (storage[o.i]) V(*reg(o.j)); ref[o.i] = ref[o.j]; unspec[o.i] = 0; break;
        case K_MOVECTOR: ri->~V(); new (storage[o.i]) V(std::move(*reg(o.j))); ref[o.i] = ref[o.j]; unspec[o.i] = 0;
            unspec[o.j] = 1; ref[o.j] = 0; break;      // moved-from: not observed until something overwrites it (assignment, clear, construction)
        case K_COPYASSIGN: *ri = *reg(o.j); ref[o.i] = ref[o.j]; unspec[o.i] = 0; break;
        case K_MOVEASSIGN: { uint32_t x = ref[o.j]; *ri = std::move(*reg(o.j)); if (o.i != o.j) { unspec[o.j] = 1; ref[o.j] = 0; } ref[o.i] = x; unspec[o.i] = 0; break; }
        case K_ADD: { V t = *reg(o.j) + *reg(o.k); uint32_t x = ref[o.j] ^ ref[o.k]; *ri = t; ref[o.i] = x; unspec[o.i] = 0; break; }
        case K_ADDEQ: { uint32_t x = ref[o.i] ^ ref[o.j]; *ri += *reg(o.j); ref[o.i] = x; break; }
        case K_CLEAR: ri->clear(); ref[o.i] = 0; unspec[o.i] = 0; break;
        }
    }
    // returns "" or a description of the first broken invariant / observation
    std::string check(std::string &cls) {
        for (int i = 0; i < R; ++i) {
            if (unspec[i]) continue;
            V &v = *reg(i);
            std::vector<std::size_t> it(v.begin(), v.end());
            if (it != std::vector<std::size_t>(v.ones.begin(), v.ones.end())) { cls = "iteration"; return "iteration of r" + std::to_string(i) + " differs from its stored coordinates"; }
            for (size_t k = 1; k < it.size(); ++k) if (!(it[k - 1] < it[k])) { cls = "not-canonical"; return "r" + std::to_string(i) + " lists coordinates not in strictly increasing order (" + std::to_string(it[k - 1]) + " before " + std::to_string(it[k]) + ")"; }
            if (it != concrete[ref[i]]) { cls = "wrong-content"; char b[160]; snprintf(b, sizeof b, "r%d lists %zu coordinates, dense model (group mask 0x%x) has %zu, or they differ", i, it.size(), ref[i], concrete[ref[i]].size()); return b; }
            if (v.size() != concrete[ref[i]].size()) { cls = "size"; return "size() of r" + std::to_string(i) + " is wrong"; }
        }
        for (int i = 0; i < R; ++i) for (int j = 0; j < R; ++j) {
            if (unspec[i] || unspec[j]) continue;
            int got = *reg(i) * *reg(j), want = parity(ref[i] & ref[j]);
            if (got != want) { cls = "dot-product"; return "r" + std::to_string(i) + "*r" + std::to_string(j) + " = " + std::to_string(got) + ", parity of common coordinates " + std::to_string(want); }
        }
        for (int i = 0; i < R; ++i) for (uint32_t m = 0; m < (1u << D); ++m) {
            if (unspec[i]) break;
            int got = *reg(i) * sets[m], want = parity(ref[i] & m);
            if (got != want) { cls = "set-product"; char b[128]; snprintf(b, sizeof b, "r%d * set(groups 0x%x) = %d, expected %d", i, m, got, want); return b; }
        }
        return "";
    }
    std::string cfg() const { return "class=SpVecGF2;cfg=" + cfgname; }
};

typedef GF2MachineT<std::size_t> GF2Machine;

// "gf2:R:D" = D plain coordinates plus the huge one; "gf2g:R:s0-s1-..[:i]" = groups of the given sizes, consecutive or interleaved
template<class M>
static M *make_gf2_t(const std::string &cfg) {
    auto t = vr::split(cfg, ':');
    int Rn = atoi(t[1].c_str());
    if (t[0] == "gf2" || t[0] == "gf2u32") { int D = atoi(t[2].c_str()); return new M(Rn, std::vector<int>(D + 1, 1), false, 1, cfg); }
    if (t[0].rfind("gf2max", 0) == 0) { int D = atoi(t[2].c_str()); return new M(Rn, std::vector<int>(D + 1, 1), false, 2, cfg); }      // gf2max / gf2maxu32 / gf2maxu16 / gf2maxu8
    std::vector<int> sizes; for (auto &x : vr::split(t[2], '-')) sizes.push_back(atoi(x.c_str()));
    return new M(Rn, sizes, t.size() > 3 && t[3] == "i", 0, cfg);
}
static GF2Machine *make_gf2(const std::string &cfg) { return make_gf2_t<GF2Machine>(cfg); }

// ------------------------------------------------------------------ F_p machine
template<class P>
struct FPMachine {
    typedef parmcb::SpVecFP<P> V;
    typedef std::vector<std::vector<std::pair<std::size_t, long>>> State;
    int R, D; long p;
    std::string pname;
    std::vector<Op> ops;
    alignas(V) unsigned char storage[4][sizeof(V)];
    V *reg(int i) { return reinterpret_cast<V*>(storage[i]); }
    std::vector<std::vector<long>> ref;     // dense values mod the register's prime
    std::vector<long> prm;                  // the prime each register carries (the real default constructor yields 3)
    std::vector<char> unspec;               // moved-from registers (see GF2Machine)
    std::string name() const { return "SpVecFP"; }

    FPMachine(int R, int D, long p, const std::string &pname) : R(R), D(D), p(p), pname(pname), ref(R, std::vector<long>(D, 0)), prm(R, p), unspec(R, 0) {
        for (int i = 0; i < R; ++i) new (storage[i]) V(P(p));
        for (int i = 0; i < R; ++i) for (int c = 0; c < D; ++c) ops.push_back({K_UNIT, i, 0, 0, c});
        for (int i = 0; i < R; ++i) { ops.push_back({K_DEFCTOR, i, 0, 0, 0}); ops.push_back({K_DEFCTOR, i, 0, 0, 1}); }   // arg 0: V(p), arg 1: the real default constructor V()
        for (int i = 0; i < R; ++i) for (int j = 0; j < R; ++j) if (i != j) { ops.push_back({K_COPYCTOR, i, j, 0, 0}); ops.push_back({K_MOVECTOR, i, j, 0, 0}); }
        for (int i = 0; i < R; ++i) for (int j = 0; j < R; ++j) { ops.push_back({K_COPYASSIGN, i, j, 0, 0}); ops.push_back({K_MOVEASSIGN, i, j, 0, 0}); ops.push_back({K_ADDEQ, i, j, 0, 0}); }
        for (int i = 0; i < R; ++i) for (int j = 0; j < R; ++j) for (int k = 0; k < R; ++k) ops.push_back({K_ADD, i, j, k, 0});
        for (int i = 0; i < R; ++i) for (long a = -p - 1; a <= 2 * p + 1; ++a) { ops.push_back({K_SCALEEQ, i, 0, 0, a}); for (int j = 0; j < R; ++j) ops.push_back({K_SCALE, i, j, 0, a}); }
        for (int i = 0; i < R; ++i) ops.push_back({K_CLEAR, i, 0, 0, 0});
    }
    ~FPMachine() { for (int i = 0; i < R; ++i) reg(i)->~V(); }
    // pseudo-register R: per real register (unspecified flag, prime)
    State initial() { State s(R + 1); for (int i = 0; i < R; ++i) s[R].push_back({0, p}); return s; }
    static long to_long(const P &x) { return (long) x; }
    State read() { State s(R + 1); for (int i = 0; i < R; ++i) for (auto &e : reg(i)->entries) s[i].push_back({boost::get<0>(e), to_long(boost::get<1>(e))}); for (int i = 0; i < R; ++i) s[R].push_back({(std::size_t) unspec[i], to_long(reg(i)->p)}); return s; }
    void restore(const State &s) {
        for (int i = 0; i < R; ++i) {
            reg(i)->~V(); new (storage[i]) V(P(s[R][i].second));
            std::fill(ref[i].begin(), ref[i].end(), 0);
            unspec[i] = (char) s[R][i].first; prm[i] = s[R][i].second;
            for (auto &e : s[i]) { reg(i)->entries.push_back(boost::make_tuple(e.first, P(e.second))); if (!unspec[i]) ref[i][e.first] = e.second; }
        }
    }
    // binary operations are only defined between vectors over the same field
    bool enabled(const Op &o) const {
        switch (o.kind) {
        case K_COPYCTOR: case K_MOVECTOR: case K_COPYASSIGN: case K_MOVEASSIGN: case K_SCALE: return !unspec[o.j];
        case K_ADD: return !unspec[o.j] && !unspec[o.k] && prm[o.j] == prm[o.k];
        case K_ADDEQ: return !unspec[o.i] && !unspec[o.j] && prm[o.i] == prm[o.j];
        case K_SCALEEQ: return !unspec[o.i];
        default: return true;
        }
    }
    static long modp(long x, long q) { x %= q; if (x < 0) x += q; return x; }
    void moved_from(int j) { unspec[j] = 1; std::fill(ref[j].begin(), ref[j].end(), 0); }
    void apply(const Op &o) {
        V *ri = reg(o.i);
        switch (o.kind) {
        case K_UNIT: *ri = (std::size_t) o.arg; std::fill(ref[o.i].begin(), ref[o.i].end(), 0); if (unspec[o.i]) prm[o.i] = to_long(ri->p); ref[o.i][o.arg] = 1 % prm[o.i]; unspec[o.i] = 0; break;
        case K_DEFCTOR: ri->~V(); if (o.arg) { new (storage[o.i]) V(); prm[o.i] = 3; } else { new (storage[o.i]) V(P(p)); prm[o.i] = p; } std::fill(ref[o.i].begin(), ref[o.i].end(), 0); unspec[o.i] = 0; break;
        case K_COPYCTOR: ri->~V(); new (storage[o.i]) V(*reg(o.j)); ref[o.i] = ref[o.j]; prm[o.i] = prm[o.j]; unspec[o.i] = 0; break;
        case K_MOVECTOR: ri->~V(); new (storage[o.i]) V(std::move(*reg(o.j))); ref[o.i] = ref[o.j]; prm[o.i] = prm[o.j]; unspec[o.i] = 0; moved_from(o.j); break;
        case K_COPYASSIGN: *ri = *reg(o.j); ref[o.i] = ref[o.j]; prm[o.i] = prm[o.j]; unspec[o.i] = 0; break;
        case K_MOVEASSIGN: { std::vector<long> x = ref[o.j]; long q = prm[o.j]; *ri = std::move(*reg(o.j)); if (o.i != o.j) moved_from(o.j); ref[o.i] = x; prm[o.i] = q; unspec[o.i] = 0; break; }
        case K_ADD: { long q = prm[o.j]; V t = *reg(o.j) + *reg(o.k); std::vector<long> x(D); for (int c = 0; c < D; ++c) x[c] = modp(ref[o.j][c] + ref[o.k][c], q); *ri = t; ref[o.i] = x; prm[o.i] = q; unspec[o.i] = 0; break; }
        case K_ADDEQ: { long q = prm[o.i]; std::vector<long> x(D); for (int c = 0; c < D; ++c) x[c] = modp(ref[o.i][c] + ref[o.j][c], q); *ri += *reg(o.j); ref[o.i] = x; break; }
        case K_SCALE: { long q = prm[o.j]; V t = *reg(o.j) * P(o.arg); std::vector<long> x(D); for (int c = 0; c < D; ++c) x[c] = modp(ref[o.j][c] * o.arg, q); *ri = t; ref[o.i] = x; prm[o.i] = q; unspec[o.i] = 0; break; }
        case K_SCALEEQ: { long q = prm[o.i]; std::vector<long> x(D); for (int c = 0; c < D; ++c) x[c] = modp(ref[o.i][c] * o.arg, q); *ri *= P(o.arg); ref[o.i] = x; break; }
        case K_CLEAR: ri->clear(); std::fill(ref[o.i].begin(), ref[o.i].end(), 0); if (unspec[o.i]) prm[o.i] = to_long(ri->p); unspec[o.i] = 0; break;
        }
    }
    std::string check(std::string &cls) {
        for (int i = 0; i < R; ++i) {
            if (unspec[i]) continue;
            V &v = *reg(i);
            long q = prm[i];
            if (to_long(v.prime()) != q) { cls = "prime"; return "prime() of r" + std::to_string(i) + " is " + std::to_string(to_long(v.prime())) + ", the field it was given is F_" + std::to_string(q); }
            std::vector<long> dense(D, 0); std::size_t prev = 0; bool first = true; std::size_t cnt = 0;
            for (auto it = v.begin(); it != v.end(); ++it, ++cnt) {
                std::size_t idx = boost::get<0>(*it); long val = to_long(boost::get<1>(*it));
                if (!first && !(prev < idx)) { cls = "not-canonical"; return "r" + std::to_string(i) + " indices not strictly increasing"; }
                first = false; prev = idx;
                if (idx >= (std::size_t) D) { cls = "wrong-content"; return "r" + std::to_string(i) + " has foreign index " + std::to_string(idx); }
                if (val < 1 || val > q - 1) { cls = "not-canonical"; return "r" + std::to_string(i) + " stores value " + std::to_string(val) + " outside 1..p-1 at index " + std::to_string(idx); }
                dense[idx] = val;
            }
            if (dense != ref[i]) { cls = "wrong-content"; std::string a, b; for (int c = 0; c < D; ++c) { a += std::to_string(dense[c]) + " "; b += std::to_string(ref[i][c]) + " "; } return "r" + std::to_string(i) + " = [" + a + "], dense model [" + b + "] (mod " + std::to_string(q) + ")"; }
            if (v.size() != cnt) { cls = "size"; return "size() disagrees with iteration"; }
        }
        for (int i = 0; i < R; ++i) for (int j = 0; j < R; ++j) {
            if (unspec[i] || unspec[j] || prm[i] != prm[j]) continue;
            long q = prm[i], want = 0; for (int c = 0; c < D; ++c) want = modp(want + ref[i][c] * ref[j][c], q);
            long got = to_long(*reg(i) * *reg(j));
            if (modp(got, q) != want) { cls = "dot-product"; return "r" + std::to_string(i) + "*r" + std::to_string(j) + " = " + std::to_string(got) + ", expected " + std::to_string(want); }
        }
        return "";
    }
    std::string cfg() const { return "class=SpVecFP;P=" + pname + ";p=" + std::to_string(p) + ";R=" + std::to_string(R) + ";D=" + std::to_string(D); }
};

// ------------------------------------------------------------------ BFS driver
struct Totals { uint64_t states = 0, transitions = 0, violations = 0; std::vector<std::string> samples; };

template<class M>
static void bfs(vr::Runner &R, M &m, Totals &tot, uint64_t max_states) {
    typedef typename M::State State;
    std::map<State, uint32_t> ids;
    std::vector<std::pair<uint32_t, int>> parent;   // (parent id, op index)
    std::vector<const State*> by_id;
    std::deque<uint32_t> q;
    auto ins = ids.emplace(m.initial(), 0); by_id.push_back(&ins.first->first); parent.push_back({0, -1}); q.push_back(0);
    auto history = [&](uint32_t id, int last_op) {
        std::vector<int> h; if (last_op >= 0) h.push_back(last_op);
        while (parent[id].second >= 0) { h.push_back(parent[id].second); id = parent[id].first; }
        std::string s, d;
        for (auto it = h.rbegin(); it != h.rend(); ++it) { s += (s.empty() ? "" : ".") + std::to_string(*it); d += (d.empty() ? "" : "; ") + op_str(m.ops[*it]); }
        return std::make_pair(m.cfg() + ";ops=" + s, d);
    };
    // initial state must satisfy the invariant as well
    { m.restore(m.initial()); std::string cls, e = m.check(cls); if (!e.empty()) { R.violation({m.name(), cls, m.cfg() + ";ops=", "initial state: " + e}); ++tot.violations; } }
    int reported = 0;
    while (!q.empty()) {
        uint32_t id = q.front(); q.pop_front();
        State cur = *by_id[id];
        auto hist0 = history(id, -1).first;
        for (size_t oi = 0; oi < m.ops.size(); ++oi) {
            m.restore(cur);
            if (!m.enabled(m.ops[oi])) continue;
            R.crumb_text(hist0 + (parent[id].second >= 0 ? "." : "") + std::to_string(oi));
            std::string cls, err;
            try { m.apply(m.ops[oi]); err = m.check(cls); }
            catch (std::exception &e) { cls = "exception"; err = e.what(); }
            catch (...) { cls = "exception"; err = "non-std exception"; }
            R.crumb_done();
            ++tot.transitions;
            if (!err.empty()) {
                ++tot.violations;
                if (reported++ < 50) { auto h = history(id, (int) oi); R.violation({m.name(), cls, h.first, "after [" + h.second + "]: " + err}); }
                continue;   // do not continue the search from a state that already broke the invariant
            }
            State nxt = m.read();
            auto r = ids.emplace(nxt, (uint32_t) by_id.size());
            if (r.second) {
                by_id.push_back(&r.first->first); parent.push_back({id, (int) oi}); q.push_back(r.first->second);
                if (by_id.size() % 997 == 3 && tot.samples.size() < 6) { auto h = history(r.first->second, -1); tot.samples.push_back(h.first + "  # " + h.second); }
                if (by_id.size() > max_states) { fprintf(stderr, "state cap hit\n"); exit(2); }
            }
        }
    }
    tot.states += by_id.size();
}

template<class M>
static int replay(vr::Runner &R, M &m, const std::string &opsstr) {
    m.restore(m.initial());
    std::string cls, err;
    for (auto &t : vr::split(opsstr, '.')) {
        if (t.empty()) continue;
        int oi = atoi(t.c_str());
        if (oi < 0 || oi >= (int) m.ops.size()) { printf("bad op index %d\n", oi); return 2; }
        printf("  %s\n", op_str(m.ops[oi]).c_str());
        if (!m.enabled(m.ops[oi])) { printf("operation reads a moved-from register: not part of the alphabet\n"); return 2; }
        try { m.apply(m.ops[oi]); err = m.check(cls); } catch (std::exception &e) { cls = "exception"; err = e.what(); }
        if (!err.empty()) { printf("{\"site\":\"%s\",\"class\":\"%s\",\"msg\":\"%s\"}\nREPLAY-VIOLATION\n", m.name().c_str(), cls.c_str(), vr::json_escape(err).c_str()); return 1; }
    }
    printf("REPLAY-OK\n");
    return 0;
}

static std::map<std::string, std::string> parse_kv(const std::string &s) {
    std::map<std::string, std::string> kv;
    for (auto &p : vr::split(s, ';')) { auto eq = p.find('='); if (eq != std::string::npos) kv[p.substr(0, eq)] = p.substr(eq + 1); }
    return kv;
}

int main(int argc, char **argv) {
    vr::Args A(argc, argv);
#ifdef PARMCB_LOGGING
    std::cout.setstate(std::ios_base::badbit);      // built against a config.hpp with PARMCB_LOGGING on: the library chats on std::cout (harness output uses stdio)
#endif
    vr::Runner R;
    if (A.has("deadline-s")) R.deadline_abs = vr::now_s() + A.getd("deadline-s", 0);
    uint64_t max_states = (uint64_t) A.geti("max-states", 5000000);
    if (A.has("replay-case")) {
        auto kv = parse_kv(A.get("replay-case"));
        int Rn = atoi(kv["R"].c_str()), D = atoi(kv["D"].c_str());
        if (kv["class"] == "SpVecGF2") {
            std::string k = vr::split(kv["cfg"], ':')[0];
            if (k == "gf2u32" || k == "gf2gu32" || k == "gf2maxu32") { std::unique_ptr<GF2MachineT<std::uint32_t>> m(make_gf2_t<GF2MachineT<std::uint32_t>>(kv["cfg"])); return replay(R, *m, kv["ops"]); }
            if (k == "gf2maxu16") { std::unique_ptr<GF2MachineT<std::uint16_t>> m(make_gf2_t<GF2MachineT<std::uint16_t>>(kv["cfg"])); return replay(R, *m, kv["ops"]); }
            if (k == "gf2maxu8") { std::unique_ptr<GF2MachineT<std::uint8_t>> m(make_gf2_t<GF2MachineT<std::uint8_t>>(kv["cfg"])); return replay(R, *m, kv["ops"]); }
            std::unique_ptr<GF2Machine> m(make_gf2(kv["cfg"])); return replay(R, *m, kv["ops"]);
        }
        long p = atol(kv["p"].c_str());
        if (kv["P"] == "int") { FPMachine<int> m(Rn, D, p, "int"); return replay(R, m, kv["ops"]); }
        if (kv["P"] == "long") { FPMachine<long> m(Rn, D, p, "long"); return replay(R, m, kv["ops"]); }
        FPMachine<boost::multiprecision::cpp_int> m(Rn, D, p, "cpp_int"); return replay(R, m, kv["ops"]);
    }
    // configurations: "gf2:R:D" or "fp:P:p:R:D", comma separated; each is one work unit
    std::vector<std::string> cfgs = vr::split(A.get("configs", "gf2:3:3"), ',');
    R.nworkers = std::min<int>((int) cfgs.size(), (int) A.geti("workers", 16));
    // per-unit totals come back through shared counters: [3u]=states [3u+1]=transitions
    std::vector<std::string> sample_store;
    std::string sample_file = R.viol_prefix + ".samples";
    auto work = [&](uint64_t u, uint64_t) {
        auto t = vr::split(cfgs[u], ':');
        Totals tot;
        if (t[0] == "gf2" || t[0] == "gf2g" || t[0] == "gf2max") { std::unique_ptr<GF2Machine> m(make_gf2(cfgs[u])); bfs(R, *m, tot, max_states); }
        else if (t[0] == "gf2maxu32") { std::unique_ptr<GF2MachineT<std::uint32_t>> m(make_gf2_t<GF2MachineT<std::uint32_t>>(cfgs[u])); bfs(R, *m, tot, max_states); }
        else if (t[0] == "gf2maxu16") { std::unique_ptr<GF2MachineT<std::uint16_t>> m(make_gf2_t<GF2MachineT<std::uint16_t>>(cfgs[u])); bfs(R, *m, tot, max_states); }
        else if (t[0] == "gf2maxu8") { std::unique_ptr<GF2MachineT<std::uint8_t>> m(make_gf2_t<GF2MachineT<std::uint8_t>>(cfgs[u])); bfs(R, *m, tot, max_states); }
        else if (t[0] == "gf2u32" || t[0] == "gf2gu32") { std::unique_ptr<GF2MachineT<std::uint32_t>> m(make_gf2_t<GF2MachineT<std::uint32_t>>(cfgs[u])); bfs(R, *m, tot, max_states); }
        else if (t[1] == "int") { FPMachine<int> m(atoi(t[3].c_str()), atoi(t[4].c_str()), atol(t[2].c_str()), "int"); bfs(R, m, tot, max_states); }
        else if (t[1] == "long") { FPMachine<long> m(atoi(t[3].c_str()), atoi(t[4].c_str()), atol(t[2].c_str()), "long"); bfs(R, m, tot, max_states); }
        else { FPMachine<boost::multiprecision::cpp_int> m(atoi(t[3].c_str()), atoi(t[4].c_str()), atol(t[2].c_str()), "cpp_int"); bfs(R, m, tot, max_states); }
        R.count(0, tot.states); R.count(1, tot.transitions);
        if (FILE *f = fopen(sample_file.c_str(), "a")) { for (auto &s : tot.samples) fprintf(f, "%s\n", s.c_str()); fclose(f); }
    };
    auto describe = [&](uint64_t u, uint64_t, uint64_t) { return std::make_pair(std::string(cfgs[u].rfind("gf2", 0) == 0 ? "SpVecGF2" : "SpVecFP"), std::string("config=") + cfgs[u]); };
    double t0 = vr::now_s();
    A.has("out"); A.require_all_used();
    auto res = R.run(cfgs.size(), work, describe);
    double wall = vr::now_s() - t0;
    std::vector<std::string> samples;
    if (FILE *f = fopen(sample_file.c_str(), "r")) { char buf[4096]; while (fgets(buf, sizeof buf, f) && samples.size() < 8) { std::string s = buf; while (!s.empty() && s.back() == '\n') s.pop_back(); samples.push_back(s); } fclose(f); unlink(sample_file.c_str()); }
    FILE *o = A.has("out") ? fopen(A.get("out").c_str(), "w") : stdout;
    fprintf(o, "{\"harness\":\"spvec_bfs\",\"evaluations\":%" PRIu64 ",\"distinct_nontrivial\":%" PRIu64 ",\"states\":%" PRIu64 ",\"transitions\":%" PRIu64
            ",\"units_total\":%" PRIu64 ",\"units_done\":%" PRIu64 ",\"capped\":%s,\"crashes\":%" PRIu64 ",\"hangs\":%" PRIu64 ",\"nviol\":%" PRIu64 ",\"wall_s\":%.3f,\n\"samples\":[",
            R.counter(1), R.counter(0), R.counter(0), R.counter(1), res.units_total, res.units_done, res.capped ? "true" : "false", res.crashes, res.hangs, res.nviol, wall);
    for (size_t i = 0; i < samples.size(); ++i) fprintf(o, "%s\"%s\"", i ? "," : "", vr::json_escape(samples[i]).c_str());
    fprintf(o, "],\n\"violations\":[");
    for (size_t i = 0; i < res.violation_lines.size(); ++i) fprintf(o, "%s\n%s", i ? "," : "", res.violation_lines[i].c_str());
    fprintf(o, "]}\n");
    if (o != stdout) fclose(o);
    return 0;
}
