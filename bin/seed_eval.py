#!/usr/bin/env python3
"""seed_eval.py <SEED_ID> <PROPERTY> [--src DIR] [--checks C01,C17] [--tier quick|thorough|both] [--skip-demo]

Confirms a seeded defect in a scratch worktree (outside /repo and /verif) and runs /verif checks against it:
  1. copies the deliverables into /verif/seeded/<SEED_ID>/ (patch.diff, demonstration, meta.json)
  2. scratch worktree of /repo HEAD -> patch applies -> repository test suite passes with the patch
  3. demonstration fails with the patch and passes without it
  4. the named checks are run with PARMCB_REPO=<scratch>; verdicts are recorded in meta.json ("verif_results")
  5. the scratch worktree and its build output are removed
Nothing is ever committed to /repo."""
import json
import os
import re
import shutil
import subprocess
import sys
import time

VERIF = os.path.dirname(os.path.dirname(os.path.abspath(__file__)))


def sh(cmd, cwd=None, timeout=3600, env=None):
    p = subprocess.run(cmd, shell=True, cwd=cwd, stdout=subprocess.PIPE, stderr=subprocess.STDOUT, text=True, timeout=timeout, env=env)
    return p.returncode, p.stdout


def main():
    a = sys.argv[1:]
    sid, prop = a[0], a[1]
    src = "/tmp/seed_%s/SEED" % sid
    checks = [prop]
    tier = "quick"
    skip_demo = False
    i = 2
    while i < len(a):
        if a[i] == "--src": src = a[i + 1]; i += 2
        elif a[i] == "--checks": checks = a[i + 1].split(","); i += 2
        elif a[i] == "--tier": tier = a[i + 1]; i += 2
        elif a[i] == "--skip-demo": skip_demo = True; i += 1
        else: i += 1
    dst = os.path.join(VERIF, "seeded", sid)
    if os.path.isdir(src) and os.path.abspath(src) != os.path.abspath(dst):
        os.makedirs(dst, exist_ok=True)
        for f in os.listdir(src):
            s, d = os.path.join(src, f), os.path.join(dst, f)
            if os.path.isdir(s):
                shutil.copytree(s, d, dirs_exist_ok=True)
            elif f == "meta.json" and os.path.exists(d):
                continue      # keep the accumulated record; the author's fields are already in it
            elif os.path.getsize(s) < 2_000_000 and not f.endswith((".o", ".out")) and os.access(s, os.R_OK) and not (os.access(s, os.X_OK) and not f.endswith((".sh", ".py"))):
                shutil.copy(s, d)
    meta_p = os.path.join(dst, "meta.json")
    meta = json.load(open(meta_p)) if os.path.exists(meta_p) else {}
    meta["property"] = prop
    orig_wt = os.path.dirname(os.path.abspath(src)) if src.startswith("/tmp/seed_") else None
    wt = "/tmp/sv_%s" % sid
    sh("git -C /repo worktree remove --force %s" % wt)
    shutil.rmtree(wt, ignore_errors=True)
    rc, out = sh("git -C /repo worktree add -f --detach %s HEAD" % wt)
    if rc: print(out); return 2
    ran = []
    try:
        rc, out = sh("git apply %s" % os.path.join(dst, "patch.diff"), cwd=wt)
        if rc:
            rc, out = sh("git apply -3 %s" % os.path.join(dst, "patch.diff"), cwd=wt)
        if rc:
            print("PATCH DOES NOT APPLY\n" + out); meta["applies"] = False; json.dump(meta, open(meta_p, "w"), indent=1); return 3
        meta["applies"] = True
        meta["applied_to_repo_commit"] = sh("git -C /repo rev-parse --short HEAD")[1].strip()
        ran.append("git apply patch.diff (scratch worktree of /repo HEAD)")
        # tests with patch
        rc, out = sh("cmake -S . -B _build -G Ninja -Wno-dev >/dev/null && cmake --build _build -j16 2>&1 | tail -3 && ctest --test-dir _build -j8 --timeout 900 2>&1 | tail -4", cwd=wt)
        meta["tests_pass_with_patch"] = (rc == 0 and "100% tests passed" in out)
        ran.append("cmake + ctest with patch: %s" % ("100% passed" if meta["tests_pass_with_patch"] else "FAILED"))
        print("tests with patch:", meta["tests_pass_with_patch"])
        if not meta["tests_pass_with_patch"]:
            print(out[-1500:])
        # demo
        cmdf = os.path.join(dst, "demo_cmd.txt")
        if not skip_demo and os.path.exists(cmdf):
            cmds = open(cmdf).read()
            # the deliverables name the author's worktree; run from a scratch copy with every path rewritten to OUR scratch worktree
            origin = meta.get("origin_worktree") or orig_wt or ("/tmp/seed_%s" % sid)
            meta["origin_worktree"] = origin
            run_dir = "/tmp/sv_%s_seed" % sid
            shutil.rmtree(run_dir, ignore_errors=True)
            shutil.copytree(dst, run_dir)
            for root, _, fs in os.walk(run_dir):
                for f in fs:
                    fp = os.path.join(root, f)
                    try:
                        t = open(fp).read()
                    except Exception:
                        continue
                    t2 = t.replace(origin + "/SEED", run_dir).replace(origin, wt)
                    if t2 != t:
                        open(fp, "w").write(t2)
            cmds = cmds.replace(origin + "/SEED", run_dir).replace(origin, wt)
            try:
                os.symlink(run_dir, os.path.join(wt, "SEED"))     # scripts that build the path as <worktree>/SEED
            except OSError:
                pass
            lines = [l for l in cmds.splitlines() if l.strip() and not l.strip().startswith("#")]
            script = "\n".join(lines)
            open("/tmp/sv_%s_demo.sh" % sid, "w").write("set -e\n" + script + "\n")
            rc1, out1 = sh("bash /tmp/sv_%s_demo.sh" % sid, cwd=wt, timeout=1800)
            meta["demo_fails_with_patch_confirmed"] = rc1 != 0 or "FAIL" in out1
            print("demo with patch rc=%d tail: %s" % (rc1, out1[-300:].replace("\n", " | ")))
            sh("git apply -R %s" % os.path.join(dst, "patch.diff"), cwd=wt)   # never git stash: the stash is shared by all worktrees
            rc2, out2 = sh("bash /tmp/sv_%s_demo.sh" % sid, cwd=wt, timeout=1800)
            meta["demo_passes_without_patch_confirmed"] = rc2 == 0 and "FAIL" not in out2.replace("FAILED: 0", "")
            print("demo without patch rc=%d tail: %s" % (rc2, out2[-200:].replace("\n", " | ")))
            sh("git apply %s" % os.path.join(dst, "patch.diff"), cwd=wt)
            ran.append("demonstration: with patch rc=%d, without patch rc=%d" % (rc1, rc2))
            os.unlink("/tmp/sv_%s_demo.sh" % sid)
            shutil.rmtree("/tmp/sv_%s_seed" % sid, ignore_errors=True)
        # remove the cmake build before running checks (disk)
        shutil.rmtree(os.path.join(wt, "_build"), ignore_errors=True)
        res = meta.get("verif_results", {})
        env = dict(os.environ); env["PARMCB_REPO"] = wt
        tiers = ["quick", "thorough"] if tier == "both" else [tier]
        for c in checks:
            for t in tiers:
                if t == "thorough" and res.get(c + ":quick", {}).get("detected"):
                    continue
                t0 = time.time()
                rc, out = sh("bin/check %s --tier %s" % (c, t), cwd=VERIF, env=env, timeout=7200)
                viol = [l for l in out.splitlines() if l.startswith("VIOLATION")]
                first = [l for l in out.splitlines() if l.strip().startswith("violation:")][:2]
                res[c + ":" + t] = {"exit": rc, "detected": rc == 1 and bool(viol), "violation_lines": len(viol), "first": [x[:600] for x in first], "wall_s": round(time.time() - t0, 1)}
                print("check %s %s -> exit %d, %d VIOLATION lines (%.0fs) %s" % (c, t, rc, len(viol), time.time() - t0, first[:1]))
                if rc == 2:
                    print(out[-1500:])
                ran.append("PARMCB_REPO=<scratch> bin/check %s --tier %s -> exit %d" % (c, t, rc))
        meta["verif_results"] = res
        meta["what_was_run"] = ran
        json.dump(meta, open(meta_p, "w"), indent=1)
    finally:
        sh("git -C /repo worktree remove --force %s" % wt)
        shutil.rmtree(wt, ignore_errors=True)
        import hashlib
        alt = os.path.join(VERIF, "build", "alt_" + hashlib.sha1(os.path.realpath(wt).encode()).hexdigest()[:10])
        shutil.rmtree(alt, ignore_errors=True)
    return 0


if __name__ == "__main__":
    sys.exit(main())
