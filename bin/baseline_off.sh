#!/bin/sh
# Repository's own test suite with the verification guard OFF (the guard is never defined by the
# repository's build system; it only exists on the command lines of /verif harness builds).
set -e
REPO=${PARMCB_REPO:-/repo}
cmake -S "$REPO" -B "$REPO/_build" -G Ninja -Wno-dev >/dev/null
cmake --build "$REPO/_build" -j16
ctest --test-dir "$REPO/_build" -j8 --timeout 900
