#!/usr/bin/env python3
"""Regenerates MANIFEST.json from checks/registry.py (single source of truth for what is claimed)."""
import json, os, sys
VERIF = os.path.dirname(os.path.dirname(os.path.abspath(__file__)))
sys.path.insert(0, VERIF)
from checks import registry

props = [json.loads(l)["id"] for l in open(os.path.join(VERIF, "properties.jsonl"))]
checks, na = [], []
for p in props:
    r = registry.CLAIMED.get(p)
    if r is None:
        na.append({"property_id": p, "reason": registry.NOT_APPLICABLE.get(p, "check not built yet in this round; see DESIGN.md for the planned model-checking approach")})
        continue
    checks.append({
        "property_id": p,
        "quick_cmd": "bin/check %s --tier quick" % p,
        "thorough_cmd": "bin/check %s --tier thorough" % p,
        "evidence_file": "evidence/%s.json" % p,
        "replay_cmd_template": "bin/check %s --replay {path}" % p,
        "engine": r.get("engine", "explorer"),
        "level_claimed": {"category": r["level"], "text": r["text"], "design_ref": r["design_ref"]},
        "level_note": r["note"],
        "technique": r["technique"],
    })
m = {
    "version": 1,
    "setup_cmd": "bin/setup",
    "hooks": {
        "guard": "PARMCB_VERIF",
        "enable": "lib/vlib.py passes -DPARMCB_VERIF on every harness compile line (harnesses are built from /repo's working tree at check time); the repository's own CMake build never defines it",
        "baseline_off_cmd": "bin/baseline_off.sh",
        "source_commits": registry.HOOK_COMMITS,
        "add_only": True,
    },
    "engines": registry.ENGINES,
    "checks": checks,
    "notes": registry.NOTES,
    "not_applicable": na,
}
json.dump(m, open(os.path.join(VERIF, "MANIFEST.json"), "w"), indent=1)
print("claimed:", [c["property_id"] for c in checks])
print("not claimed:", [n["property_id"] for n in na])
