#!/usr/bin/env python3
"""Warms the content-addressed compiler cache by building every harness once against the current $PARMCB_REPO tree.
Checks rebuild their harnesses at run time anyway; this only makes those rebuilds cache hits while the tree is unchanged."""
import os, sys, traceback
VERIF = os.path.dirname(os.path.dirname(os.path.abspath(__file__)))
sys.path.insert(0, os.path.join(VERIF, "lib")); sys.path.insert(0, VERIF)
import vlib
from concurrent.futures import ThreadPoolExecutor

def safe(f):
    try:
        f()
    except Exception:
        traceback.print_exc()

jobs = []
from checks import _exact, _approx, _components, _spvec, c03, c04, c07, c08, c09, c10, c11, c20
jobs.append(lambda: vlib.build("exact", "exact.cpp"))
jobs.append(_approx._build); jobs.append(_components._build); jobs.append(_spvec._b_spvec); jobs.append(_spvec._b_fp)
jobs.append(c03.builds); jobs.append(c04.builds); jobs.append(c07.builds); jobs.append(c08.builds); jobs.append(c09._build); jobs.append(c10._build); jobs.append(c20.builds)
with ThreadPoolExecutor(max_workers=4) as ex:
    list(ex.map(safe, jobs))
print("warm-ok")
