"""Shared driver machinery: build binding to $PARMCB_REPO, harness execution, known-findings matching,
replay artefacts and evidence files. Every check in checks/*.py is a thin description on top of this."""
import hashlib
import json
import os
import re
import shutil
import subprocess
import sys
import time

VERIF = os.path.dirname(os.path.dirname(os.path.abspath(__file__)))
REPO = os.environ.get("PARMCB_REPO", "/repo")
BUILD = os.path.join(VERIF, "build")
if os.path.realpath(REPO) != "/repo":   # mutation / seeded runs against a scratch copy get their own build area
    BUILD = os.path.join(VERIF, "build", "alt_" + hashlib.sha1(os.path.realpath(REPO).encode()).hexdigest()[:10])
NPROC = os.cpu_count() or 16
GUARD = "PARMCB_VERIF"

BASE_FLAGS = ["-std=c++14", "-O2", "-DNDEBUG", "-w", "-D" + GUARD]
CXX17_FLAGS = ["-std=c++17" if f == "-std=c++14" else f for f in BASE_FLAGS]      # the library is C++14; its users may compile it as C++17 (g++'s default)
ASAN_FLAGS = ["-std=c++14", "-O1", "-g", "-fno-omit-frame-pointer", "-w", "-D" + GUARD, "-DNDEBUG", "-DVH_TOUCH_RESULTS",
              "-fsanitize=address,undefined", "-fno-sanitize-recover=undefined",
              # container annotations + standard-library precondition checks: an access to vector storage beyond size() (e.g. top() of an
              # empty heap) is a read outside live objects although it stays inside the allocation; both fire only on genuine UB
              "-D_GLIBCXX_SANITIZE_VECTOR", "-D_GLIBCXX_ASSERTIONS"]
# NB: exitcode is a flag shared by all sanitizer runtimes in a process (the last *_OPTIONS parsed wins), so it is set once.
# Leaks are checked explicitly after every work unit (__lsan_do_recoverable_leak_check), not at process exit.
SAN_ENV = {"ASAN_OPTIONS": "exitcode=67:detect_leaks=1:leak_check_at_exit=0:abort_on_error=0:allocator_may_return_null=1:detect_stack_use_after_return=1",
           "UBSAN_OPTIONS": "halt_on_error=1:print_stacktrace=1"}


class HarnessError(Exception):
    pass


def log(*a):
    print(*a, flush=True)


def seed():
    try:
        return int(os.environ.get("VERIF_SEED", "0"))
    except ValueError:
        return 0


def gen_config(tbb=True, mpi=True, invariants=True, logging=False):
    """Generate parmcb/config.hpp from $PARMCB_REPO/include/parmcb/config.hpp.in (never from _build)."""
    name = "cfg_%d%d%d%d" % (tbb, mpi, invariants, logging)
    d = os.path.join(BUILD, name, "parmcb")
    os.makedirs(d, exist_ok=True)
    src = open(os.path.join(REPO, "include/parmcb/config.hpp.in")).read()
    on = {"PARMCB_HAVE_BOOST": True, "PARMCB_HAVE_TBB": tbb, "PARMCB_HAVE_MPI": mpi,
          "PARMCB_LOGGING": logging, "PARMCB_INVARIANTS_CHECK": invariants}

    def rep(m):
        k = m.group(1)
        return "#define %s" % k if on.get(k) else "/* #undef %s */" % k
    out = re.sub(r"#cmakedefine\s+(\w+)", rep, src)
    p = os.path.join(d, "config.hpp")
    if not os.path.exists(p) or open(p).read() != out:
        open(p, "w").write(out)
    return os.path.join(BUILD, name)


def _ccache_env():
    env = dict(os.environ)
    env["CCACHE_DIR"] = os.path.join(VERIF, "build", "ccache")
    env["CCACHE_BASEDIR"] = "/"
    env.setdefault("CCACHE_MAXSIZE", "4G")
    return env


def compile_cmd(src, out, flags=None, cfg=None, includes=(), libs=(), compiler="g++", shim_first=()):
    flags = list(BASE_FLAGS if flags is None else flags)
    cfgdir = cfg or gen_config()
    cmd = []
    if shutil.which("ccache"):
        cmd.append("ccache")
    cmd += [compiler] + flags
    for s in shim_first:
        cmd += ["-I", s]
    cmd += ["-I", cfgdir, "-I", os.path.join(REPO, "include"), "-I", os.path.join(VERIF, "harness")]
    for i in includes:
        cmd += ["-I", i]
    cmd += ["-c", src, "-o", out + ".o"]
    link = [compiler] + [f for f in flags if f.startswith("-fsanitize") or f in ("-g", "-pthread")] + [out + ".o", "-o", out] + list(libs)
    return cmd, link


def build(name, src, flags=None, cfg=None, includes=(), libs=("-lboost_timer", "-ltbb", "-lpthread"),
          compiler="g++", shim_first=(), extra_srcs=()):
    """Compile one harness binary against the current $PARMCB_REPO tree. Failure is a harness error.
    extra_srcs: further translation units compiled with the same flags and linked in."""
    os.makedirs(os.path.join(BUILD, "bin"), exist_ok=True)
    out = os.path.join(BUILD, "bin", name)
    if not os.path.isabs(src):
        src = os.path.join(VERIF, "harness", src)
    cmd, link = compile_cmd(src, out, flags, cfg, includes, libs, compiler, shim_first)
    t0 = time.time()
    p = subprocess.run(cmd, env=_ccache_env(), stdout=subprocess.PIPE, stderr=subprocess.STDOUT, text=True)
    for i, xs in enumerate(extra_srcs):
        if p.returncode != 0:
            break
        if not os.path.isabs(xs):
            xs = os.path.join(VERIF, "harness", xs)
        xcmd, _ = compile_cmd(xs, "%s.x%d" % (out, i), flags, cfg, includes, libs, compiler, shim_first)
        cmd = xcmd
        p = subprocess.run(xcmd, env=_ccache_env(), stdout=subprocess.PIPE, stderr=subprocess.STDOUT, text=True)
        link.insert(link.index(out + ".o") + 1, "%s.x%d.o" % (out, i))
    if p.returncode == 0:
        p = subprocess.run(link, stdout=subprocess.PIPE, stderr=subprocess.STDOUT, text=True)
    if p.returncode != 0:
        log("BUILD-FAILED %s\n%s" % (" ".join(cmd), p.stdout[-6000:]))
        raise HarnessError("build of %s failed" % name)
    log("built %s in %.1fs" % (name, time.time() - t0))
    return out


def build_many(specs):
    """specs: list of dict(name, src, ...) built in parallel. Returns {name: path}."""
    from concurrent.futures import ThreadPoolExecutor
    res = {}
    with ThreadPoolExecutor(max_workers=min(len(specs), NPROC) or 1) as ex:
        futs = {s["name"]: ex.submit(build, **s) for s in specs}
        for k, f in futs.items():
            res[k] = f.result()
    return res


def run_harness(binary, args, timeout=None, env=None):
    """Run a harness that writes a JSON summary to --out; returns the parsed summary."""
    os.makedirs(os.path.join(BUILD, "out"), exist_ok=True)
    out = os.path.join(BUILD, "out", "%s.%d.%d.json" % (os.path.basename(binary), os.getpid(), int(time.time() * 1e6) % 10**9))
    cmd = [binary] + [str(a) for a in args] + ["--out", out]
    e = dict(os.environ)
    if env:
        e.update(env)
    t0 = time.time()
    p = subprocess.run(cmd, stdout=subprocess.PIPE, stderr=subprocess.STDOUT, text=True, timeout=timeout, env=e)
    if p.returncode != 0 or not os.path.exists(out):
        log(p.stdout[-4000:])
        raise HarnessError("harness %s exited %s" % (" ".join(cmd), p.returncode))
    try:
        r = json.load(open(out, errors="replace"))
    finally:
        os.unlink(out)
    r["args"] = " ".join(str(a) for a in args)
    r["cmd_wall_s"] = round(time.time() - t0, 3)
    r["stdout_tail"] = p.stdout[-2000:]
    return r


def replay_opts(rp, names=("--outiter", "--wmap")):
    """Options of the row that produced a violation which are not part of the case string (kind of output iterator, kind of
    weight map): taken from the recorded bound ('<text> :: <harness arguments>') and handed to the replay as they were."""
    args = str(rp.get("bound", "")).rsplit(" :: ", 1)[-1].split()
    out = []
    for n in names:
        if n in args and args.index(n) + 1 < len(args):
            out += [n, args[args.index(n) + 1]]
    return out


# ---------------------------------------------------------------- known findings

def load_known():
    """known_findings.txt: 'known: property=.. site=<regex> class=<regex> [witness=..] :: text' and 'fixed: ...' lines."""
    p = os.path.join(VERIF, "known_findings.txt")
    out = []
    if os.path.exists(p):
        for line in open(p):
            line = line.strip()
            if not line.startswith("known:"):
                continue
            head, _, what = line[len("known:"):].partition("::")
            k = {"status": "known", "what": what.strip()}
            for tok in re.findall(r'(\w+)=("[^"]*"|\S+)', head):
                k[tok[0]] = tok[1].strip('"')
            out.append(k)
    return out


_WITNESS_CACHE = {}


def _witness_set(name):
    if name not in _WITNESS_CACHE:
        p = os.path.join(VERIF, name)
        _WITNESS_CACHE[name] = set(l.strip() for l in open(p) if l.strip() and not l.startswith("#")) if os.path.exists(p) else None
    return _WITNESS_CACHE[name]


def match_known(prop, v, known):
    """A violation matches a *known* entry only if property, site and class agree and, where the entry
    carries a witness (exact case string or regex prefixed with 're:'), the case agrees too."""
    for k in known:
        if k.get("status") != "known" or k.get("property") != prop:
            continue
        if k.get("site") and not re.fullmatch(k["site"], v.get("site", "")):
            continue
        if k.get("class") and not re.fullmatch(k["class"], v.get("class", "")):
            continue
        wf = k.get("witness_file")
        if wf:
            # the finding is identified by the specific inputs that fail: sha1 prefixes of the case strings, one per line,
            # in a file committed next to known_findings.txt (never written by a check)
            if _witness_set(wf) is None or hashlib.sha1(v.get("case", "").encode()).hexdigest()[:16] not in _witness_set(wf):
                continue
        w = k.get("witness")
        if w:
            if w.startswith("re:"):
                if not re.search(w[3:], v.get("case", "")):
                    continue
            elif w != v.get("case", ""):
                continue
        return k
    return None


# ---------------------------------------------------------------- result object

class Check:
    def __init__(self, prop, tier, level, rule, harness):
        self.prop = prop
        self.tier = tier
        self.level = level
        self.rule = rule
        self.harness = harness
        self.t0 = time.time()
        self.evaluations = 0
        self.nontrivial = 0
        self.samples = []
        self.bounds = []
        self.violations = []      # dicts: site, class, case, msg, replay_args
        self.total_reported = 0   # number of violations counted by harnesses (may exceed the listed ones)
        self.exhaustive = True
        self.extra = {}
        self.assumptions = []
        self.states = 0
        self.transitions = 0
        self.traces_validated = None
        self.programs = None
        self.deadline = None
        self.notes = []

    def builds_done(self):
        """The exploration deadline counts from here: compile time (cold caches, scratch copies) must not eat the exploration budget."""
        self.t_explore = time.time()

    def remaining(self, floor=5.0):
        if self.deadline is None:
            return None
        # VERIF_DEADLINE_SCALE: maintenance runs (e.g. regenerating the witness list of a known finding) must not be capped
        return max(floor, self.deadline * float(os.environ.get("VERIF_DEADLINE_SCALE", "1")) - (time.time() - getattr(self, "t_explore", self.t0)))

    def add_run(self, r, bound, classes=None, replay=None):
        """Merge one harness summary. classes: only violations whose class is in this set belong to this
        property (crash/hang/exception always do)."""
        self.evaluations += int(r.get("evaluations", 0))
        self.nontrivial += int(r.get("distinct_nontrivial", 0))
        self.states += int(r.get("states", 0))
        self.transitions += int(r.get("transitions", 0))
        self.samples.extend(r.get("samples", [])[:3])
        capped = bool(r.get("capped"))
        b = {"bound": bound, "evaluations": r.get("evaluations", 0), "complete": not capped,
             "wall_s": r.get("wall_s", r.get("cmd_wall_s"))}
        for k in ("units_total", "units_done", "states", "transitions", "schedules", "outcomes", "max_deviation_completed"):
            if k in r:
                b[k] = r[k]
        self.bounds.append(b)
        if capped:
            self.exhaustive = False
        always = {"crash", "crash-after-case", "hang", "exception"}
        n_listed = 0
        for v in r.get("violations", []):
            if classes is not None and v.get("class") not in classes and v.get("class") not in always:
                continue
            v = dict(v)
            v["bound"] = bound
            if replay:
                v["replay"] = replay
            self.violations.append(v)
            n_listed += 1
        self.total_reported += n_listed

    def finish(self):
        known = load_known()
        if os.environ.get("VERIF_DUMP_VIOLATIONS"):
            with open(os.environ["VERIF_DUMP_VIOLATIONS"], "a") as df:
                for v in self.violations:
                    df.write(json.dumps({"site": v.get("site"), "class": v.get("class"), "case": v.get("case")}) + "\n")
        wall = time.time() - self.t0
        unlisted, matched = [], {}
        for v in self.violations:
            k = match_known(self.prop, v, known)
            if k is None:
                unlisted.append(v)
            else:
                key = json.dumps(k, sort_keys=True)
                matched.setdefault(key, [k, 0, v])
                matched[key][1] += 1
        for key, (k, cnt, first) in matched.items():
            log("KNOWN-FINDING: property=%s site=%s class=%s %s (matched %d case(s) this run, e.g. %s)" % (
                self.prop, k.get("site", "*"), k.get("class", "*"), k.get("what", ""), cnt, first.get("case", "")))
        # replay artefacts for unlisted violations (first 20)
        rdir = os.path.join(VERIF, "replays", self.prop)
        lines = []
        for v in unlisted[:20]:
            os.makedirs(rdir, exist_ok=True)
            body = {"property": self.prop, "harness": self.harness, "site": v.get("site"), "class": v.get("class"),
                    "case": v.get("case"), "message": v.get("msg"), "bound": v.get("bound"), "replay": v.get("replay")}
            h = hashlib.sha1(json.dumps(body, sort_keys=True).encode()).hexdigest()[:16]
            path = os.path.join(rdir, h + ".json")
            json.dump(body, open(path, "w"), indent=1)
            lines.append("VIOLATION property=%s replay=%s" % (self.prop, path))
            log("  violation: site=%s class=%s case=%s :: %s" % (v.get("site"), v.get("class"), v.get("case"), v.get("msg")))
        if len(unlisted) > 20:
            log("  ... and %d more unlisted violations" % (len(unlisted) - 20))
        cov = {
            "evaluations": self.evaluations,
            "distinct_nontrivial": self.nontrivial,
            "rule": self.rule,
            "samples": (self.samples[::-1][:12] if len(self.samples) > 12 else self.samples) or ["(none)"],
            "exhaustive": bool(self.exhaustive),
            "bounds_completed": self.bounds,
            "violations_unlisted": len(unlisted),
            "known_findings_matched": sum(c for _, c, _ in matched.values()),
        }
        if self.level == "model_checking" or self.states:
            cov["states"] = self.states
            cov["transitions"] = self.transitions
            cov["traces_validated_against_impl"] = int(self.traces_validated or 0)
        if self.programs is not None:
            cov["programs"] = self.programs
        cov.update(self.extra)
        ev = {"property_id": self.prop, "tier": self.tier, "seed": seed(), "level": self.level, "coverage": cov,
              "assumptions": self.assumptions, "wall_s": round(wall, 2), "violations": len(unlisted),
              "repo": REPO, "notes": self.notes}
        evdir = os.path.join(VERIF, "evidence") if os.path.realpath(REPO) == "/repo" else os.path.join(BUILD, "evidence")
        os.makedirs(evdir, exist_ok=True)
        json.dump(ev, open(os.path.join(evdir, self.prop + ".json"), "w"), indent=1)
        # evidence/<ID>.json is rewritten by whichever tier ran last; the last run of each tier is kept next to it
        os.makedirs(os.path.join(evdir, "tiers"), exist_ok=True)
        json.dump(ev, open(os.path.join(evdir, "tiers", "%s.%s.json" % (self.prop, self.tier)), "w"), indent=1)
        log("%s tier=%s evaluations=%d nontrivial=%d states=%d transitions=%d exhaustive=%s wall=%.1fs violations=%d known=%d" % (
            self.prop, self.tier, self.evaluations, self.nontrivial, self.states, self.transitions, self.exhaustive, wall,
            len(unlisted), cov["known_findings_matched"]))
        for l in lines:
            log(l)
        return 1 if unlisted else 0


def load_replay(path):
    return json.load(open(path))
