#pragma once
#include "vmpi_core.hpp"
