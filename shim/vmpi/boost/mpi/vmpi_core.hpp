// vmpi: a controllable stand-in for the part of Boost.MPI that parmcb uses (communicator rank/size, broadcast, reduce,
// scatter, timer, environment, traits). It is put FIRST on the include path so the unmodified parmcb MPI sources
// run on top of it. P "ranks" are threads of one process, each with private data; a baton scheduler runs exactly
// one rank at a time and a rank yields only inside a collective or when it returns.
//
// When no rank is runnable:
//   * all P ranks wait in the same collective (kind, root, sequence number)  -> it is executed, everybody resumes
//   * anything else (a rank returned while others wait, mismatching kinds/roots) -> DEADLOCK state, reported by the
//     harness with the per-rank positions. No wall-clock timeout is involved.
// Payloads travel through boost::archive binary archives, so the serialize() members are exercised as under MPI.
// reduce with an operator declared is_commutative: every combination order and parenthesisation is legal; all are
// enumerated by a subset dynamic programme and the explorer branches over the distinct results (compared as bytes).
#pragma once
#include <boost/archive/binary_iarchive.hpp>
#include <boost/archive/binary_oarchive.hpp>
#include <boost/mpl/bool.hpp>
#include <boost/serialization/vector.hpp>
#include <boost/serialization/string.hpp>
#include <condition_variable>
#if !defined(VMPI_THREADS)
#include <ucontext.h>
#endif
#include <functional>
#include <map>
#include <mutex>
#include <sstream>
#include <string>
#include <thread>
#include <vector>
#include <type_traits>
#include <functional>
#include "common/explore.hpp"

#define VMPI_SHIM 1

namespace boost { namespace mpi {

template<class Op, class T> struct is_commutative : mpl::false_ {};
template<class T> struct is_mpi_datatype : mpl::false_ {};

// the function objects of <boost/mpi/operations.hpp>; as in Boost.MPI they (and std::plus / std::multiplies) are declared
// commutative for built-in arithmetic types
template<class T> struct maximum { typedef T first_argument_type; typedef T second_argument_type; typedef T result_type; const T &operator()(const T &x, const T &y) const { return x < y ? y : x; } };
template<class T> struct minimum { typedef T first_argument_type; typedef T second_argument_type; typedef T result_type; const T &operator()(const T &x, const T &y) const { return x < y ? x : y; } };
template<class T> struct bitwise_and { T operator()(const T &x, const T &y) const { return x & y; } };
template<class T> struct bitwise_or { T operator()(const T &x, const T &y) const { return x | y; } };
template<class T> struct bitwise_xor { T operator()(const T &x, const T &y) const { return x ^ y; } };
template<class T> struct logical_xor { bool operator()(const T &x, const T &y) const { return (x || y) && !(x && y); } };
#define VMPI_COMMUTATIVE(OP) template<class T> struct is_commutative<OP<T>, T> : mpl::bool_<std::is_arithmetic<T>::value> {};
VMPI_COMMUTATIVE(maximum) VMPI_COMMUTATIVE(minimum) VMPI_COMMUTATIVE(bitwise_and) VMPI_COMMUTATIVE(bitwise_or) VMPI_COMMUTATIVE(bitwise_xor) VMPI_COMMUTATIVE(logical_xor)
VMPI_COMMUTATIVE(std::plus) VMPI_COMMUTATIVE(std::multiplies) VMPI_COMMUTATIVE(std::logical_and) VMPI_COMMUTATIVE(std::logical_or)
#undef VMPI_COMMUTATIVE

namespace threading { enum level { single = 0, funneled = 1, serialized = 2, multiple = 3 }; }

namespace vmpi {

enum Kind { NONE = 0, BCAST, REDUCE, SCATTER, RETURNED, RECV };
inline const char *kind_name(int k) { static const char *n[] = {"running", "broadcast", "reduce", "scatter", "returned", "recv"}; return n[k]; }

struct RankState {
    int kind = NONE, root = -1; long seq = 0;
    std::string out_payload;                 // what this rank contributes
    std::vector<std::string> out_parts;      // scatter root: one payload per rank
    std::string in_payload;                  // what this rank receives
    bool waiting = false, returned = false;
    std::vector<int> group;                  // world ranks taking part in the pending collective (empty = the whole world)
    int tag = 0;                             // pending recv: wanted tag (-1 = any); root = wanted source as world rank (-1 = any)
    std::function<std::string(const std::string&, const std::string&)> op;   // reduce: combine two serialized values
    bool commutative = false;
};

struct World {
    int P = 1;
    std::vector<RankState> rs;
    std::mutex mu;
    std::condition_variable cv;
    int baton = -1;                          // rank allowed to run; -1 = scheduler
    bool deadlock = false;
    std::string deadlock_desc;
    bool aborted = false;
    uint64_t collectives = 0, reduce_max_outcomes = 0, reduce_multi = 0;
    std::vector<std::string> rank_errors;
    std::vector<int> baton_order;            // order in which runnable ranks are tried
    struct Msg { int src, dst, tag; std::string payload; };
    std::vector<Msg> mail;                   // point-to-point messages in flight (sends are buffered, order of posting is kept)
    explicit World(int P) : P(P), rs(P) { for (int i = 0; i < P; ++i) baton_order.push_back(i); }
};

inline World *&current_world() { static World *w = nullptr; return w; }
#ifdef VMPI_THREADS
inline int &current_rank() { static thread_local int r = 0; return r; }
#else
inline int &current_rank() { static int r = 0; return r; }     // fibers: set by the scheduler before every switch
#endif

struct Aborted {};

#ifdef VMPI_THREADS
// called by a rank thread: hand the baton back to the scheduler and wait until it comes back
inline void yield_to_scheduler(World &w, int r) {
    std::unique_lock<std::mutex> lk(w.mu);
    w.baton = -1;
    w.cv.notify_all();
    w.cv.wait(lk, [&] { return w.baton == r || w.aborted; });
    if (w.aborted && w.baton != r) throw Aborted();
}
#else
// Ranks are user-level coroutines (ucontext): a switch costs ~100 ns instead of a futex round trip, which is what makes
// tens of thousands of P-rank executions per second possible. Thread mode (-DVMPI_THREADS) is kept for sanitizer builds.
struct Fibers {
    ucontext_t sched;
    std::vector<ucontext_t> ctx;
    std::vector<char*> stacks;
    const std::function<void(int)> *body = nullptr;
    World *world = nullptr;
};
inline Fibers &fibers() { static Fibers f; return f; }
constexpr std::size_t VMPI_STACK = 1u << 20;
inline void yield_to_scheduler(World &w, int r) {
    Fibers &F = fibers();
    swapcontext(&F.ctx[r], &F.sched);
    current_rank() = r;
    if (w.aborted) throw Aborted();
}
#endif

inline std::string describe(World &w) {
    std::ostringstream os;
    for (int i = 0; i < w.P; ++i) {
        os << (i ? " " : "") << "rank" << i << ":";
        if (w.rs[i].returned) os << "returned";
        else if (w.rs[i].waiting) os << kind_name(w.rs[i].kind) << "@root" << w.rs[i].root << "#" << w.rs[i].seq;
        else os << "running";
    }
    return os.str();
}

// all-subsets DP for a commutative reduction; returns distinct results (as bytes)
inline std::vector<std::string> reduce_outcomes(World &w, const std::vector<int> &G) {
    int P = (int) G.size();
    auto &op = w.rs[G[0]].op;
    bool comm = w.rs[G[0]].commutative;
    std::vector<std::string> in(P);
    for (int i = 0; i < P; ++i) in[i] = w.rs[G[i]].out_payload;
    auto add = [](std::vector<std::string> &s, std::string v) { for (auto &x : s) if (x == v) return; s.push_back(std::move(v)); };
    if (!comm) {
        // rank-order preserving trees over intervals
        std::vector<std::vector<std::vector<std::string>>> E(P + 1, std::vector<std::vector<std::string>>(P + 1));
        for (int i = 0; i < P; ++i) E[i][i + 1].push_back(in[i]);
        for (int len = 2; len <= P; ++len) for (int i = 0; i + len <= P; ++i) { int j = i + len;
            for (int m = i + 1; m < j; ++m) for (auto &x : E[i][m]) for (auto &y : E[m][j]) add(E[i][j], op(x, y)); }
        return E[0][P];
    }
    std::vector<std::vector<std::string>> V(1u << P);
    for (int i = 0; i < P; ++i) V[1u << i].push_back(in[i]);
    // default first: the rank-order left fold ((in0 op in1) op in2) ... so that choice 0 is the canonical tree
    for (unsigned S = 1; S < (1u << P); ++S) {
        if (!(S & (S - 1))) continue;
        // canonical split first: highest rank alone on the right
        unsigned hb = 1u << (31 - __builtin_clz(S));
        std::vector<std::pair<unsigned, unsigned>> splits; splits.push_back({S ^ hb, hb});
        for (unsigned A = (S - 1) & S; A; A = (A - 1) & S) { unsigned B = S ^ A; if (!B) continue; if (A == (S ^ hb)) continue; splits.push_back({A, B}); }
        for (auto &sp : splits) for (auto &x : V[sp.first]) for (auto &y : V[sp.second]) add(V[S], op(x, y));
    }
    return V[(1u << P) - 1];
}

// members of the collective that rank r is waiting in (world ranks, ascending)
inline std::vector<int> group_of(World &w, int r) {
    if (!w.rs[r].group.empty()) return w.rs[r].group;
    std::vector<int> g(w.P); for (int i = 0; i < w.P; ++i) g[i] = i; return g;
}
// root is stored as a WORLD rank; scatter parts are indexed by position in the group
inline void execute_collective(World &w, const std::vector<int> &G) {
    int kind = w.rs[G[0]].kind, root = w.rs[G[0]].root;
    ++w.collectives;
    if (kind == BCAST) { for (int i : G) w.rs[i].in_payload = w.rs[root].out_payload; }
    else if (kind == SCATTER) { for (std::size_t k = 0; k < G.size(); ++k) w.rs[G[k]].in_payload = w.rs[root].out_parts.at(k); }
    else if (kind == REDUCE) {
        std::vector<std::string> outs = reduce_outcomes(w, G);
        if (outs.size() > w.reduce_max_outcomes) w.reduce_max_outcomes = outs.size();
        if (outs.size() > 1) ++w.reduce_multi;
        int k = vx::choose((int) outs.size(), vx::OUTCOME);
        w.rs[root].in_payload = outs[k];
    }
    for (int i : G) w.rs[i].waiting = false;
}
// A collective can run when every member of its group waits in the same collective of the same communicator. Returns false
// if no pending collective is complete (then nobody can ever run again: deadlock).
// index of the first message in flight that rank r's pending (or about to be posted) recv accepts, -1 if none
inline int match_message(World &w, int r, int src, int tag) {
    for (std::size_t i = 0; i < w.mail.size(); ++i) if (w.mail[i].dst == r && (src < 0 || w.mail[i].src == src) && (tag < 0 || w.mail[i].tag == tag)) return (int) i;
    return -1;
}
inline bool execute_some_collective(World &w) {
    // point-to-point: a rank blocked in recv resumes as soon as a matching message is in flight
    for (int r = 0; r < w.P; ++r) {
        if (w.rs[r].returned || !w.rs[r].waiting || w.rs[r].kind != RECV) continue;
        int i = match_message(w, r, w.rs[r].root, w.rs[r].tag);
        if (i >= 0) { w.rs[r].in_payload = w.mail[i].payload; w.rs[r].root = w.mail[i].src; w.rs[r].tag = w.mail[i].tag; w.mail.erase(w.mail.begin() + i); w.rs[r].waiting = false; return true; }
    }
    for (int r = 0; r < w.P; ++r) {
        if (w.rs[r].returned || !w.rs[r].waiting || w.rs[r].kind == RECV) continue;
        std::vector<int> G = group_of(w, r);
        bool same = true;
        for (int i : G) same &= !w.rs[i].returned && w.rs[i].waiting && w.rs[i].kind == w.rs[r].kind && w.rs[i].root == w.rs[r].root && group_of(w, i) == G
                                 && (G.size() != (std::size_t) w.P || w.rs[i].seq == w.rs[r].seq);
        if (same) { execute_collective(w, G); return true; }
    }
    return false;
}

#ifdef VMPI_THREADS
// Runs body(rank) on P rank threads under the baton scheduler. Returns false on deadlock (description in world).
inline bool run_ranks(World &w, const std::function<void(int)> &body) {
    current_world() = &w;
    std::vector<std::thread> th;
    for (int r = 0; r < w.P; ++r) th.emplace_back([&w, &body, r]() {
        current_rank() = r;
        { std::unique_lock<std::mutex> lk(w.mu); w.cv.wait(lk, [&] { return w.baton == r || w.aborted; }); if (w.aborted && w.baton != r) return; }
        try { body(r); } catch (Aborted &) { return; }
        catch (std::exception &e) { std::unique_lock<std::mutex> lk(w.mu); w.rank_errors.push_back("rank " + std::to_string(r) + ": exception: " + e.what()); }
        catch (...) { std::unique_lock<std::mutex> lk(w.mu); w.rank_errors.push_back("rank " + std::to_string(r) + ": unknown exception"); }
        std::unique_lock<std::mutex> lk(w.mu);
        w.rs[r].returned = true; w.rs[r].waiting = false;
        w.baton = -1; w.cv.notify_all();
    });
    {
        std::unique_lock<std::mutex> lk(w.mu);
        for (;;) {
            int next = -1;
            for (int r : w.baton_order) if (!w.rs[r].returned && !w.rs[r].waiting) { next = r; break; }
            if (next < 0) {
                bool all_ret = true;
                for (int r = 0; r < w.P; ++r) all_ret &= w.rs[r].returned;
                if (all_ret) break;
                if (!execute_some_collective(w)) { w.deadlock = true; w.deadlock_desc = describe(w); w.aborted = true; w.cv.notify_all(); break; }
                continue;
            }
            w.baton = next; w.cv.notify_all();
            w.cv.wait(lk, [&] { return w.baton == -1; });
        }
    }
    for (auto &t : th) t.join();
    current_world() = nullptr;
    return !w.deadlock;
}
#else
inline void fiber_entry() {
    Fibers &F = fibers();
    World &w = *F.world;
    int r = current_rank();
    try { (*F.body)(r); }
    catch (Aborted &) { w.rs[r].returned = true; w.rs[r].waiting = false; return; }
    catch (std::exception &e) { w.rank_errors.push_back("rank " + std::to_string(r) + ": exception: " + e.what()); }
    catch (...) { w.rank_errors.push_back("rank " + std::to_string(r) + ": unknown exception"); }
    w.rs[r].returned = true; w.rs[r].waiting = false;
    // returning switches to uc_link = the scheduler context
}
// Runs body(rank) on P rank coroutines under the baton scheduler. Returns false on deadlock (description in world).
inline bool run_ranks(World &w, const std::function<void(int)> &body) {
    Fibers &F = fibers();
    current_world() = &w; F.world = &w; F.body = &body;
    while ((int) F.stacks.size() < w.P) F.stacks.push_back((char*) std::malloc(VMPI_STACK));
    F.ctx.assign(w.P, ucontext_t());
    std::vector<char> started(w.P, 0);
    for (int r = 0; r < w.P; ++r) {
        getcontext(&F.ctx[r]);
        F.ctx[r].uc_stack.ss_sp = F.stacks[r]; F.ctx[r].uc_stack.ss_size = VMPI_STACK; F.ctx[r].uc_link = &F.sched;
        makecontext(&F.ctx[r], (void (*)()) fiber_entry, 0);
    }
    for (;;) {
        int next = -1;
        for (int r : w.baton_order) if (!w.rs[r].returned && !w.rs[r].waiting) { next = r; break; }
        if (next < 0) {
            bool all_ret = true;
            for (int r = 0; r < w.P; ++r) all_ret &= w.rs[r].returned;
            if (all_ret) break;
            if (!execute_some_collective(w)) {
                w.deadlock = true; w.deadlock_desc = describe(w); w.aborted = true;
                // unwind every suspended rank: resume it so that it throws Aborted out of its collective
                for (int r = 0; r < w.P; ++r) if (!w.rs[r].returned && started[r]) { current_rank() = r; swapcontext(&F.sched, &F.ctx[r]); }
                break;
            }
            continue;
        }
        current_rank() = next; started[next] = 1;
        swapcontext(&F.sched, &F.ctx[next]);
    }
    current_world() = nullptr;
    return !w.deadlock;
}
#endif

template<class T> std::string pack(const T &v) { std::ostringstream os; { boost::archive::binary_oarchive oa(os, boost::archive::no_header); oa << v; } return os.str(); }
template<class T> void unpack(const std::string &s, T &v) { std::istringstream is(s); boost::archive::binary_iarchive ia(is, boost::archive::no_header); ia >> v; }

} // namespace vmpi

// A default-constructed communicator is the world (as in Boost.MPI). A sub-communicator is a sorted list of world ranks;
// rank() / size() / roots are relative to it, and its collectives involve its members only.
class communicator {
public:
    communicator() {}
    explicit communicator(std::shared_ptr<const std::vector<int>> members) : members_(members) {}
    int rank() const { int r = vmpi::current_rank(); if (!members_) return r; for (std::size_t i = 0; i < members_->size(); ++i) if ((*members_)[i] == r) return (int) i; return -1; }
    int size() const { if (members_) return (int) members_->size(); return vmpi::current_world() ? vmpi::current_world()->P : 1; }
    int world_rank_of(int comm_rank) const { return members_ ? members_->at(comm_rank) : comm_rank; }
    const std::vector<int> *members() const { return members_.get(); }
    void barrier() const;
    // point-to-point: sends are buffered (never block), recv blocks until a matching message is in flight; messages between
    // one pair of ranks with one tag are received in the order they were sent
    template<class T> void send(int dest, int tag, const T &value) const;
    void send(int dest, int tag) const { send(dest, tag, 0); }
    template<class T> int recv(int source, int tag, T &value) const;        // returns the source (comm-relative)
    int recv(int source, int tag) const { int dummy; return recv(source, tag, dummy); }
    // split by colour, ranks ordered by world rank (the harness's way to obtain sub-communicators; one collective)
    communicator split(int color) const;
private:
    std::shared_ptr<const std::vector<int>> members_;
};

class environment {
public:
    environment() {}
    environment(int&, char**&, bool = true) {}
    environment(int&, char**&, threading::level, bool = true) {}
    static threading::level thread_level() { return threading::multiple; }
    static std::string processor_name() { return "vmpi"; }
    static bool initialized() { return true; }
};

class timer {
public:
    timer() {}
    void restart() {}
    double elapsed() const { return 0.0; }
};

namespace vmpi {
    inline void enter(World &w, int r, int kind, int root, const communicator &comm) {
        RankState &s = w.rs[r];
        s.group.clear(); if (comm.members()) s.group = *comm.members();
        s.kind = kind; s.root = comm.world_rank_of(root); ++s.seq; s.waiting = true;
        yield_to_scheduler(w, r);
    }
}

template<class T>
void broadcast(const communicator &comm, T &value, int root) {
    vmpi::World &w = *vmpi::current_world(); int r = vmpi::current_rank(); const int cr = comm.rank();
    w.rs[r].out_payload = (cr == root) ? vmpi::pack(value) : std::string();
    vmpi::enter(w, r, vmpi::BCAST, root, comm);
    if (cr != root) vmpi::unpack(w.rs[r].in_payload, value);
}

template<class T, class Op>
void reduce(const communicator &comm, const T &in_value, T &out_value, Op op, int root) {
    vmpi::World &w = *vmpi::current_world(); int r = vmpi::current_rank(); const int cr = comm.rank();
    w.rs[r].out_payload = vmpi::pack(in_value);
    w.rs[r].commutative = is_commutative<Op, T>::value;
    w.rs[r].op = [op](const std::string &a, const std::string &b) { T x, y; vmpi::unpack(a, x); vmpi::unpack(b, y); T z = op(x, y); return vmpi::pack(z); };
    vmpi::enter(w, r, vmpi::REDUCE, root, comm);
    if (cr == root) vmpi::unpack(w.rs[r].in_payload, out_value);
}
template<class T, class Op>
void reduce(const communicator &comm, const T &in_value, Op op, int root) { T dummy; reduce(comm, in_value, dummy, op, root); }

template<class T>
void scatter(const communicator &comm, const std::vector<T> &in_values, T &out_value, int root) {
    vmpi::World &w = *vmpi::current_world(); int r = vmpi::current_rank(); const int cr = comm.rank();
    w.rs[r].out_parts.clear();
    if (cr == root) for (int i = 0; i < comm.size(); ++i) w.rs[r].out_parts.push_back(vmpi::pack(in_values.at(i)));
    vmpi::enter(w, r, vmpi::SCATTER, root, comm);
    vmpi::unpack(w.rs[r].in_payload, out_value);
}
template<class T>
void scatter(const communicator &comm, T &out_value, int root) { scatter(comm, std::vector<T>(), out_value, root); }

constexpr int any_source = -1, any_tag = -1;
template<class T> void communicator::send(int dest, int tag, const T &value) const {
    vmpi::World &w = *vmpi::current_world();
    w.mail.push_back({vmpi::current_rank(), world_rank_of(dest), tag, vmpi::pack(value)});
}
template<class T> int communicator::recv(int source, int tag, T &value) const {
    vmpi::World &w = *vmpi::current_world(); int r = vmpi::current_rank();
    vmpi::RankState &s = w.rs[r];
    s.group.clear(); s.kind = vmpi::RECV; s.root = source < 0 ? -1 : world_rank_of(source); s.tag = tag; s.waiting = true;     // (seq counts collectives only)
    vmpi::yield_to_scheduler(w, r);
    vmpi::unpack(s.in_payload, value);
    int src_world = s.root;
    if (!members_) return src_world;
    for (std::size_t i = 0; i < members_->size(); ++i) if ((*members_)[i] == src_world) return (int) i;
    return -1;
}
// barrier: everybody of the communicator must arrive (modelled as a broadcast of nothing from its rank 0)
inline void communicator::barrier() const { if (!vmpi::current_world()) return; int dummy = 0; broadcast(*this, dummy, 0); }
inline communicator communicator::split(int color) const {
    std::vector<int> colors; 
    { std::vector<int> mine(1, color), all; reduce(*this, mine, all, [](const std::vector<int> &a, const std::vector<int> &b) { std::vector<int> r(a); r.insert(r.end(), b.begin(), b.end()); return r; }, 0); broadcast(*this, all, 0); colors = all; }
    auto mem = std::make_shared<std::vector<int>>();
    for (int i = 0; i < size(); ++i) if (colors[i] == color) mem->push_back(world_rank_of(i));
    return communicator(mem);
}

// Collectives that parmcb does not use today, expressed through the modelled ones (same values, same blocking behaviour:
// every rank takes part, nobody leaves before everybody has arrived), so that a change which starts using them still builds
// and runs on the model: all_reduce = reduce to rank 0 + broadcast; gather = rank-ordered reduce of one-element vectors;
// all_gather = gather + broadcast.
template<class T, class Op>
void all_reduce(const communicator &comm, const T &in_value, T &out_value, Op op) { T tmp = in_value; reduce(comm, in_value, tmp, op, 0); broadcast(comm, tmp, 0); out_value = tmp; }
template<class T, class Op>
T all_reduce(const communicator &comm, const T &in_value, Op op) { T out; all_reduce(comm, in_value, out, op); return out; }
namespace vmpi { template<class T> struct Concat { std::vector<T> operator()(const std::vector<T> &a, const std::vector<T> &b) const { std::vector<T> r(a); r.insert(r.end(), b.begin(), b.end()); return r; } }; }
template<class T>
void gather(const communicator &comm, const T &in_value, std::vector<T> &out_values, int root) { std::vector<T> mine(1, in_value), all; reduce(comm, mine, all, vmpi::Concat<T>(), root); if (comm.rank() == root) out_values = all; }
template<class T>
void gather(const communicator &comm, const T &in_value, int root) { std::vector<T> dummy; gather(comm, in_value, dummy, root); }
template<class T>
void all_gather(const communicator &comm, const T &in_value, std::vector<T> &out_values) { std::vector<T> all; gather(comm, in_value, all, 0); broadcast(comm, all, 0); out_values = all; }

}} // namespace boost::mpi
