#pragma once
#include "mpi/vmpi_core.hpp"
