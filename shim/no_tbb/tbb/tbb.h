#error "TBB is not available in this configuration (PARMCB_HAVE_TBB is off)"
