#error "TBB is not available in this configuration"
