#error "Boost.MPI is not available in this configuration (PARMCB_HAVE_MPI is off)"
