#error "Boost.MPI is not available in this configuration"
