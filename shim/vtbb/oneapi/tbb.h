#pragma once
#include "../tbb/vtbb_core.h"
