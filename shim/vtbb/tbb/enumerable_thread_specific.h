#pragma once
#include "vtbb_core.h"
