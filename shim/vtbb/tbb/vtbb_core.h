// vtbb: a controllable stand-in for the part of oneTBB that parmcb uses. It is put FIRST on the include path so that
// the unmodified parmcb sources (#include <tbb/parallel_reduce.h> ...) run on top of it.
//
// Two modes from one set of headers:
//  * explore mode (default): single-threaded; every nondeterministic decision goes through vx::choose.
//      - parallel_reduce is enumerated COMPLETELY per call (all leaf partitions, all groupings into accumulation runs
//        started from the identity, all order-preserving join trees) by the dynamic programme of DESIGN.md appendix A;
//        the explorer then branches (cost 0) over the distinct results.
//      - parallel_for: default = one leaf; split points and out-of-order leaf picks are ORDER choices.
//      - concurrent_vector::push_back issued inside a parallel_for leaf is parked and, when the parallel_for returns,
//        the leaves' push-event sequences are interleaved into one global order chosen by the explorer (every such
//        interleaving is a real execution, and every real execution is such an interleaving).
//  * free-running mode (-DVTBB_THREADS): one std::thread per single-index leaf, used only under ThreadSanitizer.
//        The only synchronisation added by the shim is thread creation/join; concurrent_vector uses a relaxed atomic
//        cursor into pre-reserved storage, so it adds no happens-before edge that could mask a race.
#pragma once
#include <algorithm>
#include <atomic>
#include <cstddef>
#include <cstdio>
#include <cstdlib>
#include <functional>
#include <memory>
#include <mutex>
#include <thread>
#include <utility>
#include <vector>
#include "common/explore.hpp"

#define TBB_VERSION_MAJOR 2021
#define TBB_VERSION_MINOR 8
#define VTBB_SHIM 1

namespace tbb {

// ---------------------------------------------------------------- statistics exported to the harness
struct VtbbStats {
    uint64_t reduce_calls = 0, reduce_body_runs = 0, reduce_joins = 0, reduce_max_outcomes = 0, reduce_multi_outcome_calls = 0;
    uint64_t reduce_block_mode_calls = 0;
    uint64_t for_calls = 0, for_leaves = 0, parked_pushes = 0, merges = 0;
    uint64_t impure_bodies = 0;
    uint64_t reduce_identity_leaf_calls = 0;   // calls in which some single-cell leaf started from the identity returns the identity although the whole range does not
};
inline VtbbStats &vtbb_stats() { static VtbbStats s; return s; }
inline int &vtbb_max_cells() { static int m = 12; return m; }      // ranges longer than this are explored at block granularity
// parallel_reduce exploration mode: 0 = complete per-call enumeration (dynamic programme; exact when bodies are pure
// functions of (range, value)); 1 = direct execution of ONE legal schedule chosen through vx::choose (partition, order
// in time, continue-or-fresh per leaf), which is sound for bodies with side effects and is deviation-bounded.
inline int &vtbb_reduce_mode() { static int m = 0; return m; }

// ---------------------------------------------------------------- blocked_range
template<class Value>
class blocked_range {
public:
    typedef Value const_iterator;
    typedef std::size_t size_type;
    blocked_range() : b_(), e_(), g_(1) {}
    blocked_range(Value b, Value e, size_type grainsize = 1) : b_(b), e_(e), g_(grainsize) {}
    const_iterator begin() const { return b_; }
    const_iterator end() const { return e_; }
    size_type size() const { return size_type(e_ - b_); }
    size_type grainsize() const { return g_; }
    bool empty() const { return !(b_ < e_); }
    bool is_divisible() const { return g_ < size(); }
private:
    Value b_, e_; size_type g_;
};

// ---------------------------------------------------------------- deferred push machinery (explore mode)
namespace vtbb_detail {
    struct ParkedVectorBase { virtual void commit(std::size_t leaf) = 0; virtual bool has_parked() const = 0; virtual void reset_parked() = 0; virtual ~ParkedVectorBase() {} };
    struct ForContext {
        bool in_for = false;
        std::size_t current_leaf = 0;
        // push events per leaf in program order: which vector
        std::vector<std::vector<ParkedVectorBase*>> events;
    };
    inline ForContext &for_ctx() { static ForContext c; return c; }
}

// ---------------------------------------------------------------- concurrent_vector
#ifndef VTBB_THREADS
template<class T>
class concurrent_vector : public vtbb_detail::ParkedVectorBase {
public:
    typedef T value_type;
    typedef typename std::vector<T>::iterator iterator;
    typedef typename std::vector<T>::const_iterator const_iterator;
    typedef std::size_t size_type;
    typedef blocked_range<iterator> range_type;
    typedef blocked_range<const_iterator> const_range_type;
    concurrent_vector() {}
    iterator push_back(const T &x) {
        auto &c = vtbb_detail::for_ctx();
        if (c.in_for) {
            if (parked_.size() <= c.current_leaf) parked_.resize(c.current_leaf + 1);
            parked_[c.current_leaf].push_back(x);
            c.events[c.current_leaf].push_back(this);
            ++vtbb_stats().parked_pushes;
            return data_.end();     // parmcb never uses the returned iterator
        }
        data_.push_back(x);
        return data_.end() - 1;
    }
    void commit(std::size_t leaf) override { data_.push_back(std::move(parked_[leaf][cursor_at(leaf)])); ++cursor_[leaf]; }
    bool has_parked() const override { for (size_t l = 0; l < parked_.size(); ++l) if ((l < cursor_.size() ? cursor_[l] : 0) < parked_[l].size()) return true; return false; }
    void reset_parked() override { parked_.clear(); cursor_.clear(); }
    T &operator[](size_type i) { guard(); return data_[i]; }
    const T &operator[](size_type i) const { guard(); return data_[i]; }
    T &at(size_type i) { guard(); return data_.at(i); }
    const T &at(size_type i) const { guard(); return data_.at(i); }
    size_type size() const { guard(); return data_.size(); }
    bool empty() const { guard(); return data_.empty(); }
    iterator begin() { guard(); return data_.begin(); }
    iterator end() { guard(); return data_.end(); }
    const_iterator begin() const { guard(); return data_.begin(); }
    const_iterator end() const { guard(); return data_.end(); }
    void clear() { data_.clear(); }
private:
    std::size_t cursor_at(std::size_t leaf) { if (cursor_.size() <= leaf) cursor_.resize(leaf + 1, 0); return cursor_[leaf]; }
    void guard() const {
        // shim assumption, enforced: nobody reads a vector that still has parked (not yet interleaved) elements
        if (vtbb_detail::for_ctx().in_for && has_parked()) {
            fprintf(stderr, "HARNESS-ERROR vtbb: concurrent_vector read inside the parallel_for that fills it (deferred-push model does not apply)\n");
            exit(2);
        }
    }
    std::vector<T> data_;
    std::vector<std::vector<T>> parked_;
    std::vector<std::size_t> cursor_;
};
#else
// free-running mode: fixed-capacity storage, relaxed cursor (no happens-before edges contributed)
template<class T>
class concurrent_vector {
public:
    typedef T value_type;
    typedef T* iterator;
    typedef const T* const_iterator;
    typedef std::size_t size_type;
    typedef blocked_range<iterator> range_type;
    typedef blocked_range<const_iterator> const_range_type;
    static constexpr std::size_t CAP = 4096;
    concurrent_vector() : raw_(static_cast<T*>(::operator new(sizeof(T) * CAP))), n_(0) {}
    ~concurrent_vector() { std::size_t n = n_.load(std::memory_order_relaxed); for (std::size_t i = 0; i < n; ++i) raw_[i].~T(); ::operator delete(raw_); }
    concurrent_vector(const concurrent_vector&) = delete;
    iterator push_back(const T &x) {
        std::size_t i = n_.fetch_add(1, std::memory_order_relaxed);
        if (i >= CAP) { fprintf(stderr, "HARNESS-ERROR vtbb thread mode: concurrent_vector capacity exceeded\n"); exit(2); }
        new (raw_ + i) T(x);
        return raw_ + i;
    }
    T &operator[](size_type i) { return raw_[i]; }
    const T &operator[](size_type i) const { return raw_[i]; }
    T &at(size_type i) { if (i >= size()) throw std::out_of_range("vtbb concurrent_vector::at"); return raw_[i]; }
    const T &at(size_type i) const { if (i >= size()) throw std::out_of_range("vtbb concurrent_vector::at"); return raw_[i]; }
    size_type size() const { return n_.load(std::memory_order_relaxed); }
    bool empty() const { return size() == 0; }
    iterator begin() { return raw_; }
    iterator end() { return raw_ + size(); }
    const_iterator begin() const { return raw_; }
    const_iterator end() const { return raw_ + size(); }
private:
    T *raw_;
    std::atomic<std::size_t> n_;
};
#endif

// ---------------------------------------------------------------- parallel_for
namespace vtbb_detail {
    template<class Range> Range subrange(const Range &r, std::size_t i, std::size_t j) { return Range(r.begin() + i, r.begin() + j, r.grainsize()); }
    template<class Range> std::size_t length(const Range &r) { return r.empty() ? 0 : (std::size_t) (r.end() - r.begin()); }
}

#ifndef VTBB_THREADS
template<class Range, class Body>
void parallel_for(const Range &range, const Body &body) {
    using namespace vtbb_detail;
    std::size_t N = length(range);
    ++vtbb_stats().for_calls;
    if (N == 0) return;
    ForContext &c = for_ctx();
    if (c.in_for) { fprintf(stderr, "HARNESS-ERROR vtbb: nested parallel_for is not modelled\n"); exit(2); }
    // 1. partition: default one leaf; each split is an ORDER deviation
    std::vector<std::pair<std::size_t, std::size_t>> work{{0, N}}, leaves;
    while (!work.empty()) {
        auto lf = work.back(); work.pop_back();
        std::size_t len = lf.second - lf.first;
        // a blocked_range is divisible only while it is longer than its grain size (default 1)
        int s = (len >= 2 && len > (std::size_t) range.grainsize()) ? vx::choose((int) len, vx::ORDER) : 0;     // 0 = keep whole, s>0 = split after s elements
        if (s == 0) leaves.push_back(lf);
        else { work.push_back({lf.first + s, lf.second}); work.push_back({lf.first, lf.first + s}); }
    }
    std::sort(leaves.begin(), leaves.end());
    // 2. execution order: default ascending; every pick that is not the lowest pending leaf is an ORDER deviation
    std::vector<std::size_t> pending(leaves.size());
    for (std::size_t i = 0; i < pending.size(); ++i) pending[i] = i;
    c.in_for = true; c.events.assign(leaves.size(), {});
    std::vector<std::size_t> exec_order;
    while (!pending.empty()) {
        int p = vx::choose((int) pending.size(), vx::ORDER);
        std::size_t li = pending[p]; pending.erase(pending.begin() + p);
        c.current_leaf = li; exec_order.push_back(li);
        ++vtbb_stats().for_leaves;
        body(subrange(range, leaves[li].first, leaves[li].second));
    }
    // 3. interleave the leaves' push events into one global order (default: leaf execution order)
    std::vector<std::size_t> cur(leaves.size(), 0);
    for (;;) {
        std::vector<std::size_t> ready;
        for (std::size_t li : exec_order) if (cur[li] < c.events[li].size()) ready.push_back(li);
        if (ready.empty()) break;
        int p = vx::choose((int) ready.size(), vx::ORDER);
        std::size_t li = ready[p];
        c.events[li][cur[li]]->commit(li);
        ++cur[li]; ++vtbb_stats().merges;
    }
    // vectors keep their parked storage until reset; clear it now
    c.in_for = false;
    // reset parked queues of all vectors that took part
    {
        std::vector<ParkedVectorBase*> seen;
        for (auto &ev : c.events) for (auto *v : ev) if (std::find(seen.begin(), seen.end(), v) == seen.end()) seen.push_back(v);
        for (auto *v : seen) { if (v->has_parked()) { fprintf(stderr, "HARNESS-ERROR vtbb: parked pushes left after merge\n"); exit(2); } v->reset_parked(); }
    }
    std::vector<std::vector<ParkedVectorBase*>>().swap(c.events);   // keep no heap storage between calls
}
#else
template<class Range, class Body>
void parallel_for(const Range &range, const Body &body) {
    using namespace vtbb_detail;
    std::size_t N = length(range);
    if (N <= (std::size_t) range.grainsize()) { if (N) body(range); return; }     // not divisible
    std::vector<std::thread> th;
    th.reserve(N);
    for (std::size_t i = 0; i < N; ++i) th.emplace_back([&, i]() { body(subrange(range, i, i + 1)); });
    for (auto &t : th) t.join();
}
#endif

// ---------------------------------------------------------------- parallel_reduce (functional form)
#ifndef VTBB_THREADS
namespace vtbb_detail {
    template<class V> void add_distinct(std::vector<V> &set, V &&v) { for (auto &x : set) if (x == v) return; set.push_back(std::move(v)); }
}

namespace vtbb_detail {
    // One legal execution of the functional parallel_reduce, chosen by the explorer:
    //  - the range is cut into leaves (every cut is an ORDER deviation; long ranges are cut on a block grid);
    //  - leaves run one after the other in an order in time chosen by the explorer (default left to right);
    //  - a leaf whose left neighbour has already run may continue that neighbour's accumulation (default) or start
    //    from the identity (deviation); a leaf whose left neighbour has not run yet must start from the identity
    //    (that is what a stolen sub-range does);
    //  - the resulting runs are joined left to right.
    // All zeros = one leaf from the identity = the sequential execution.
    template<class Range, class Value, class Func, class Reduction>
    Value reduce_direct(const Range &range, const Value &identity, const Func &body, const Reduction &join) {
        VtbbStats &S = vtbb_stats();
        std::size_t N = length(range), maxc = (std::size_t) vtbb_max_cells();
        std::vector<std::size_t> cut;
        if (N <= (std::size_t) range.grainsize()) { ++S.reduce_body_runs; return Value(body(range, identity)); }     // not divisible: one body, no join
        if (N <= maxc) { for (std::size_t i = 0; i <= N; ++i) cut.push_back(i); }
        else {
            std::size_t w = (N + maxc - 1) / maxc;
            int off = vx::choose((int) w, vx::ORDER);
            cut.push_back(0);
            for (std::size_t x = (off == 0 ? w : (std::size_t) off); x < N; x += w) cut.push_back(x);
            cut.push_back(N);
        }
        std::size_t C = cut.size() - 1;
        std::vector<std::pair<std::size_t, std::size_t>> work{{0, C}}, leaves;
        while (!work.empty()) {
            auto lf = work.back(); work.pop_back();
            std::size_t len = lf.second - lf.first;
            int sp = (len >= 2 && cut[lf.second] - cut[lf.first] > (std::size_t) range.grainsize()) ? vx::choose((int) len, vx::ORDER) : 0;
            if (sp == 0) leaves.push_back(lf);
            else { work.push_back({lf.first + sp, lf.second}); work.push_back({lf.first, lf.first + sp}); }
        }
        std::sort(leaves.begin(), leaves.end());
        std::size_t L = leaves.size();
        std::vector<int> done(L, 0), run_of(L, -1);
        std::vector<std::unique_ptr<Value>> run_val;          // value of each accumulation run
        std::vector<std::size_t> run_first;                   // first leaf of each run (for ordering the joins)
        std::vector<std::size_t> pending(L);
        for (std::size_t i = 0; i < L; ++i) pending[i] = i;
        while (!pending.empty()) {
            int pk = vx::choose((int) pending.size(), vx::ORDER);
            std::size_t li = pending[pk]; pending.erase(pending.begin() + pk);
            // runs are contiguous and are only ever extended at their right end
            bool can_continue = li > 0 && done[li - 1];
            int mode = 1;      // 0 continue the left neighbour's run, 1 fresh from the identity, 2 first join all completed runs that are contiguous to the left, then continue
            if (can_continue) { int ch = vx::choose(3, vx::ORDER); mode = ch == 0 ? 0 : ch == 1 ? 1 : 2; }
            ++S.reduce_body_runs;
            Range sub = subrange(range, cut[leaves[li].first], cut[leaves[li].second]);
            if (mode == 1) { run_of[li] = (int) run_val.size(); run_val.emplace_back(new Value(body(sub, identity))); run_first.push_back(li); }
            else {
                int r = run_of[li - 1];
                if (mode == 2) {
                    // absorb completed runs directly to the left of r (their last leaf is adjacent to r's first leaf), right to left
                    for (;;) {
                        std::size_t first = run_first[r];
                        if (first == 0 || !done[first - 1]) break;
                        int l = run_of[first - 1];
                        ++S.reduce_joins;
                        Value jv = join(*run_val[l], *run_val[r]);
                        run_val[l].reset(new Value(std::move(jv)));
                        for (std::size_t x = 0; x < L; ++x) if (run_of[x] == r) run_of[x] = l;
                        run_val[r].reset(); r = l;
                    }
                }
                run_of[li] = r; Value v = body(sub, *run_val[r]); run_val[r].reset(new Value(std::move(v)));
            }
            done[li] = 1;
        }
        std::vector<std::size_t> order;
        for (std::size_t i = 0; i < run_val.size(); ++i) if (run_val[i]) order.push_back(i);
        std::sort(order.begin(), order.end(), [&](std::size_t a, std::size_t b) { return run_first[a] < run_first[b]; });
        Value acc = *run_val[order[0]];
        for (std::size_t i = 1; i < order.size(); ++i) { ++S.reduce_joins; acc = join(acc, *run_val[order[i]]); }
        return acc;
    }
}

template<class Range, class Value, class Func, class Reduction>
Value parallel_reduce(const Range &range, const Value &identity, const Func &body, const Reduction &join) {
    using namespace vtbb_detail;
    VtbbStats &S = vtbb_stats();
    ++S.reduce_calls;
    std::size_t N = length(range);
    if (N == 0) return identity;
    if (!vx::explorer().active || N <= (std::size_t) range.grainsize()) { ++S.reduce_body_runs; return Value(body(range, identity)); }   // (a range no longer than its grain size is not divisible)
    if (vtbb_reduce_mode() == 1) return vtbb_detail::reduce_direct(range, identity, body, join);
    // cells: the finest leaves considered. Up to vtbb_max_cells() single-index cells; longer ranges use a block grid
    // whose offset is an ORDER choice (all schedules whose leaf boundaries lie on the grid are enumerated).
    std::size_t C = N, maxc = (std::size_t) vtbb_max_cells();
    std::vector<std::size_t> cut;     // cell boundaries 0 = cut[0] < ... < cut[C] = N
    if (N <= maxc) { for (std::size_t i = 0; i <= N; ++i) cut.push_back(i); }
    else {
        ++S.reduce_block_mode_calls;
        std::size_t w = (N + maxc - 1) / maxc;                  // block width
        int off = vx::choose((int) w, vx::ORDER);               // grid offset
        cut.push_back(0);
        for (std::size_t x = (off == 0 ? w : (std::size_t) off); x < N; x += w) cut.push_back(x);
        cut.push_back(N);
        C = cut.size() - 1;
    }
    // E[i][j]: every value a legal execution can hold for cells [i,j):
    //   - a body instance that holds ANY value for a prefix [i,p) (E[i][i] = {identity}: a fresh instance) and then consumes
    //     cells [p,j) in one invocation  -- this includes a body that keeps accumulating after a join, which the installed
    //     oneTBB does produce (observed by the conformance recorder: B(52,53,J(..)));
    //   - the order-preserving join of a value for [i,m) with a value for [m,j).
    // the sequential execution is computed FIRST, before any other body invocation can have touched state shared between
    // invocations; it is the default outcome and the yardstick of the purity probe
    ++S.reduce_body_runs;
    Value sequential = body(range, identity);
    std::vector<std::vector<std::vector<Value>>> E(C + 1, std::vector<std::vector<Value>>(C + 1));
    for (std::size_t i = 0; i <= C; ++i) E[i][i].push_back(identity);
    E[0][C].push_back(sequential);
    for (std::size_t len = 1; len <= C; ++len) for (std::size_t i = 0; i + len <= C; ++i) {
        std::size_t j = i + len;
        // default first: one invocation covering everything from the identity (this is what a one-worker run does)
        for (std::size_t p = i; p < j; ++p) for (const Value &x : E[i][p]) {
            ++S.reduce_body_runs;
            add_distinct(E[i][j], Value(body(subrange(range, cut[p], cut[j]), x)));     // (results are converted to the identity's type, as oneTBB stores them)
        }
        for (std::size_t m = i + 1; m < j; ++m) for (const Value &x : E[i][m]) for (const Value &y : E[m][j]) { ++S.reduce_joins; add_distinct(E[i][j], Value(join(x, y))); }
    }
    // purity probe: the same invocation repeated in the middle of the enumeration (it is the first one of E[0][C]'s loop, p = 0)
    // and again at the very end must return what it returned at the start; otherwise bodies share state and the
    // enumeration above is not a set of real executions (the harness then discards it and relies on direct execution)
    { ++S.reduce_body_runs; Value again = body(range, identity); if (!(again == sequential)) ++S.impure_bodies; }
    if (C >= 2 && !(sequential == identity)) { for (std::size_t i = 0; i < C; ++i) { bool idl = false; for (const Value &x : E[i][i + 1]) if (x == identity) idl = true; if (idl) { ++S.reduce_identity_leaf_calls; break; } } }
    std::vector<Value> &out = E[0][C];
    if (out.size() > S.reduce_max_outcomes) S.reduce_max_outcomes = out.size();
    if (out.size() > 1) ++S.reduce_multi_outcome_calls;
    int k = vx::choose((int) out.size(), vx::OUTCOME);
    return out[k];
}
#else
template<class Range, class Value, class Func, class Reduction>
Value parallel_reduce(const Range &range, const Value &identity, const Func &body, const Reduction &join) {
    using namespace vtbb_detail;
    std::size_t N = length(range);
    if (N == 0) return identity;
    if (N <= (std::size_t) range.grainsize()) return Value(body(range, identity));     // not divisible
    std::vector<std::unique_ptr<Value>> part(N);
    std::vector<std::thread> th;
    th.reserve(N);
    for (std::size_t i = 0; i < N; ++i) th.emplace_back([&, i]() { part[i].reset(new Value(body(subrange(range, i, i + 1), identity))); });
    for (auto &t : th) t.join();
    Value acc = *part[0];
    for (std::size_t i = 1; i < N; ++i) acc = join(acc, *part[i]);
    return acc;
}
#endif

// ---------------------------------------------------------------- global_control / task_group stubs
class global_control {
public:
    enum parameter { max_allowed_parallelism, thread_stack_size, terminate_on_exception, parameter_max };
    global_control(parameter, std::size_t) {}
    static std::size_t active_value(parameter) { return 1; }
};
class task_group {
public:
    template<class F> void run(const F &f) { f(); }
    void wait() {}
};

// ---------------------------------------------------------------- partitioners, imperative parallel_reduce
// Partitioner arguments are accepted and ignored (the explorer owns the partition). The imperative form of parallel_reduce
// (a body object with a splitting constructor and join) runs on one body, or - one ORDER deviation - splits once at a
// chosen point, runs the right half on a split-constructed body and joins.
struct split {};
class auto_partitioner {}; class simple_partitioner {}; class static_partitioner {}; class affinity_partitioner {};
template<class Range, class Body, class Part> void parallel_for(const Range &range, const Body &body, const Part &) { parallel_for(range, body); }
template<class Range, class Body, class Part> void parallel_for(const Range &range, const Body &body, Part &) { parallel_for(range, body); }
template<class Range, class Value, class Func, class Reduction, class Part>
Value parallel_reduce(const Range &range, const Value &identity, const Func &body, const Reduction &join, const Part &) { return parallel_reduce(range, identity, body, join); }
template<class Range, class Body>
auto parallel_reduce(const Range &range, Body &body) -> decltype(body.join(body), void()) {
    using namespace vtbb_detail;
    std::size_t N = length(range);
    if (N == 0) return;
#ifndef VTBB_THREADS
    int cutp = (N >= 2 && N > (std::size_t) range.grainsize()) ? vx::choose((int) N, vx::ORDER) : 0;
#else
    int cutp = (N >= 2 && N > (std::size_t) range.grainsize()) ? (int) (N / 2) : 0;
#endif
    if (cutp == 0) { body(range); return; }
    Body right(body, split());
#ifdef VTBB_THREADS
    std::thread t([&]() { right(subrange(range, (std::size_t) cutp, N)); }); body(subrange(range, 0, (std::size_t) cutp)); t.join();
#else
    if (vx::choose(2, vx::ORDER) == 0) { body(subrange(range, 0, (std::size_t) cutp)); right(subrange(range, (std::size_t) cutp, N)); }
    else { right(subrange(range, (std::size_t) cutp, N)); body(subrange(range, 0, (std::size_t) cutp)); }
#endif
    body.join(right);
}

// ---------------------------------------------------------------- facilities parmcb does not use today
// A change that starts using one of them must still build and run on the shim (otherwise the schedule checks would end as
// harness errors). They get the simplest LEGAL semantics - the ones a single worker produces - plus an order choice where the
// runtime is free; the thread mode (-DVTBB_THREADS) uses real threads / locks so that ThreadSanitizer keeps its meaning.
template<class Index, class F>
void parallel_for(Index first, Index last, const F &f) {
    if (!(first < last)) return;
    parallel_for(blocked_range<Index>(first, last), [&](const blocked_range<Index> &r) { for (Index i = r.begin(); i != r.end(); ++i) f(i); });
}
template<class It, class F>
void parallel_for_each(It first, It last, const F &f) {
    std::vector<It> its; for (It i = first; i != last; ++i) its.push_back(i);
    parallel_for(blocked_range<std::size_t>(0, its.size()), [&](const blocked_range<std::size_t> &r) { for (std::size_t i = r.begin(); i != r.end(); ++i) f(*its[i]); });
}
template<class C, class F> void parallel_for_each(C &c, const F &f) { parallel_for_each(c.begin(), c.end(), f); }
template<class F0, class F1>
void parallel_invoke(const F0 &f0, const F1 &f1) {
#ifdef VTBB_THREADS
    std::thread t(f1); f0(); t.join();
#else
    if (vx::choose(2, vx::ORDER) == 0) { f0(); f1(); } else { f1(); f0(); }
#endif
}
template<class F0, class F1, class F2>
void parallel_invoke(const F0 &f0, const F1 &f1, const F2 &f2) { parallel_invoke(f0, [&]() { parallel_invoke(f1, f2); }); }
template<class It> void parallel_sort(It first, It last) { std::sort(first, last); }
template<class It, class Cmp> void parallel_sort(It first, It last, const Cmp &cmp) { std::sort(first, last, cmp); }
template<class C> void parallel_sort(C &c) { std::sort(c.begin(), c.end()); }

#ifdef VTBB_THREADS
class spin_mutex { public: void lock() { m_.lock(); } void unlock() { m_.unlock(); } bool try_lock() { return m_.try_lock(); }
    class scoped_lock { public: scoped_lock() : m_(nullptr) {} explicit scoped_lock(spin_mutex &m) : m_(&m) { m.lock(); } ~scoped_lock() { if (m_) m_->unlock(); } void acquire(spin_mutex &m) { m_ = &m; m.lock(); } void release() { if (m_) { m_->unlock(); m_ = nullptr; } } private: spin_mutex *m_; };
    private: std::mutex m_; };
#else
class spin_mutex { public: void lock() {} void unlock() {} bool try_lock() { return true; }
    class scoped_lock { public: scoped_lock() {} explicit scoped_lock(spin_mutex &) {} void acquire(spin_mutex &) {} void release() {} }; };
#endif
typedef spin_mutex mutex; typedef spin_mutex queuing_mutex; typedef spin_mutex speculative_spin_mutex; typedef spin_mutex null_mutex;

// one instance per "thread": a single instance in explore mode (what one worker sees), one per std::thread in thread mode
template<class T>
class enumerable_thread_specific {
public:
    enumerable_thread_specific() : init_([]() { return T(); }) {}
    explicit enumerable_thread_specific(const T &v) : init_([v]() { return v; }) {}
    template<class F, class = decltype(std::declval<F>()())> explicit enumerable_thread_specific(F f) : init_(f) {}
    T &local() { bool e; return local(e); }
    T &local(bool &exists) {
#ifdef VTBB_THREADS
        std::lock_guard<std::mutex> g(mu_); auto id = std::this_thread::get_id();
        for (auto &p : items_) if (p.first == id) { exists = true; return *p.second; }
        exists = false; items_.emplace_back(id, std::unique_ptr<T>(new T(init_()))); return *items_.back().second;
#else
        exists = !items_.empty(); if (items_.empty()) items_.emplace_back(std::this_thread::get_id(), std::unique_ptr<T>(new T(init_()))); return *items_.front().second;
#endif
    }
    std::size_t size() const { return items_.size(); }
    bool empty() const { return items_.empty(); }
    void clear() { items_.clear(); }
    template<class F> T combine(F f) { if (items_.empty()) return init_(); T acc = *items_[0].second; for (std::size_t i = 1; i < items_.size(); ++i) acc = f(acc, *items_[i].second); return acc; }
    template<class F> void combine_each(F f) { for (auto &p : items_) f(*p.second); }
    struct iterator { typename std::vector<std::pair<std::thread::id, std::unique_ptr<T>>>::iterator it; T &operator*() const { return *it->second; } T *operator->() const { return it->second.get(); } iterator &operator++() { ++it; return *this; } bool operator!=(const iterator &o) const { return it != o.it; } bool operator==(const iterator &o) const { return it == o.it; } };
    iterator begin() { return iterator{items_.begin()}; }
    iterator end() { return iterator{items_.end()}; }
private:
    std::function<T()> init_;
    std::vector<std::pair<std::thread::id, std::unique_ptr<T>>> items_;
    std::mutex mu_;
};
template<class T> class combinable : public enumerable_thread_specific<T> { public: using enumerable_thread_specific<T>::enumerable_thread_specific; };

template<class T>
class concurrent_queue {
public:
    void push(const T &v) { std::lock_guard<std::mutex> g(mu_); q_.push_back(v); }
    bool try_pop(T &v) { std::lock_guard<std::mutex> g(mu_); if (q_.empty()) return false; v = q_.front(); q_.erase(q_.begin()); return true; }
    bool empty() const { return q_.empty(); }
    std::size_t unsafe_size() const { return q_.size(); }
    void clear() { q_.clear(); }
private:
    std::vector<T> q_; std::mutex mu_;
};

} // namespace tbb

namespace oneapi { namespace tbb { using namespace ::tbb; } }
