from checks import _approx
def run(tier): return _approx.run("C05", tier)
def replay(path): return _approx.replay("C05", path)
