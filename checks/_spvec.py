"""C17 (SpVecGF2) and C18 (fp / primes / SpVecFP): explicit-state BFS over the real classes + argument-box enumeration."""
import subprocess
import vlib

RULE17 = ("explicit-state breadth-first search: state = concrete private coordinate vectors of 3 SpVecGF2 registers over coordinates {0..D-1, 2^40} of type std::size_t (gf2u32 / gf2gu32 configurations: coordinate type std::uint32_t, huge coordinate 2^31+5; gf2max* configurations: the huge coordinate is the largest value of the coordinate type, for size_t / uint32_t / uint16_t / uint8_t); "
          "(gf2g configurations realise each abstract coordinate as a GROUP of consecutive or interleaved real coordinates, so vectors with dozens of ones are reached while the "
          "abstract space stays 2^D per register); transitions = every public operation (unit/set/default/copy/move construction, copy/move assignment incl. self, r_i=r_j+r_k, r_i+=r_j incl. aliasing, clear) "
          "executed on the real objects; after every transition canonical form, equality with a dense bitmask model and all observations (size, iteration, "
          "all register dot products, products with all index sets) are checked; search runs to a fixpoint. distinct_nontrivial = distinct reachable states")
RULE18 = ("(a) complete enumeration of argument boxes for ext_gcd, get_mult_inverse, is_prime with int, long, cpp_int against schoolbook references; "
          "(a') SpVecFP over the largest prime whose (p-1)^2 fits the coordinate type (int: 46337, long and cpp_int: 2^31-1): all ordered pairs of vectors over 3 coordinates with values in "
          "{0,1,2,(p-1)/2,p-2,p-1}, built through public operations; a+b, a+=b, a*b, scalar products with the value alphabet and {p,p+1,-1} against a dense cpp_int model; "
          "(b) explicit-state BFS over 2 SpVecFP registers (state = concrete private entry vectors) for p in {2,3,5,7} under unit assignment, copy/move "
          "construction/assignment, +, +=, scalar * and *= by every integer in [-p-1, 2p+1], clear, to a fixpoint; invariant = indices strictly increasing, "
          "values in 1..p-1, equality with a dense mod-p model, dot products congruent. distinct_nontrivial = reachable states + non-degenerate argument tuples")


def _b_spvec():
    return vlib.build("spvec_bfs", "spvec_bfs.cpp", flags=vlib.BASE_FLAGS + ["-fno-access-control"], libs=())


def _b_fp():
    return vlib.build("fp_enum", "fp_enum.cpp", libs=())


def run17(tier):
    c = vlib.Check("C17", tier, "model_checking", RULE17, "spvec_bfs")
    c.assumptions = ["the concrete state of a SpVecGF2 is exactly its private vector `ones` (read/restored with -fno-access-control)",
                     "a moved-from register is marked unspecified: it is never observed or read until an operation overwrites it (assignment into it, clear(), construction), and those operations are part of the alphabet",
                     "dimension bound: 3 registers, D small coordinates + one huge coordinate"]
    b = _b_spvec()
    # gf2:R:D = D plain coordinates + the huge one; gf2g:R:sizes[:i] = coordinate groups (long vectors), consecutive or interleaved
    cfgs = ["gf2u32:3:2", "gf2gu32:3:4-1-3-1", "gf2gu32:2:2-9-1:i",       # the same machine over a 32-bit unsigned coordinate type
            "gf2max:3:2", "gf2maxu32:3:2", "gf2maxu16:2:3", "gf2maxu8:3:2",   # the "huge" coordinate is the largest value of the coordinate type (size_t, uint32_t, uint16_t, uint8_t)
            "gf2:3:2", "gf2:3:3", "gf2g:3:16-1-8-1", "gf2g:3:1-16-1-8:i", "gf2g:3:20-1-1-3", "gf2g:3:2-33-1-1:i", "gf2g:3:1-1-40-1"]
    if tier == "thorough":
        cfgs += ["gf2:3:4", "gf2:2:5", "gf2g:3:16-1-8-1-4", "gf2g:3:5-17-1-2-64:i", "gf2g:3:1-31-1-32-1", "gf2g:3:100-1-7-1:i", "gf2g:2:3-1-16-1-9-2"]
    r = vlib.run_harness(b, ["--configs", ",".join(cfgs)])
    c.add_run(r, "SpVecGF2 BFS to fixpoint, configs R:D = " + ",".join(cfgs), None, replay={"harness": "spvec_bfs"})
    # every trace of the BFS is an execution of the implementation itself (no separate model to conform)
    c.traces_validated = r.get("transitions", 0)
    c.extra["model_binding"] = "the transition relation IS the implementation: each transition executes the real operator on real objects; the dense bitmask model is only the oracle"
    return c.finish()


def run18(tier):
    c = vlib.Check("C18", tier, "model_checking", RULE18, "spvec_bfs+fp_enum")
    c.assumptions = ["integer extremes of built-in types (|a| near the type's maximum) are outside the alphabet",
                     "each register carries its own prime (the real default constructor yields F_3; copy/move/assignment must carry the prime); binary operations between vectors over different fields are outside the alphabet"]
    bf = _b_fp()
    bs = _b_spvec()
    if tier == "quick":
        fa = ["--gcd-box", 256, "--inv-pmax", 200, "--prime-max", 2000000]
        cfgs = ["fp:long:2:2:2", "fp:int:3:2:2", "fp:cpp_int:5:2:2", "fp:long:7:2:2", "fp:cpp_int:2:2:3", "fp:long:3:2:3"]
    else:
        fa = ["--gcd-box", 1500, "--inv-pmax", 1000, "--prime-max", 20000000]
        cfgs = ["fp:%s:%d:2:%d" % (t, p, d) for t in ("int", "long", "cpp_int") for p in (2, 3, 5, 7) for d in (2, 3)]
    r1 = vlib.run_harness(bf, fa + ["--seed", vlib.seed()])
    c.add_run(r1, "fp/primes argument boxes " + r1["args"], None, replay={"harness": "fp_enum"})
    # the same under the library's other build configurations (fp.hpp and spvecfp.hpp consult PARMCB_LOGGING / PARMCB_INVARIANTS_CHECK)
    for tag, kw in (("log", dict(logging=True)), ("noinv", dict(invariants=False))):
        bfc = vlib.build("fp_enum_cfg_" + tag, "fp_enum.cpp", libs=(), cfg=vlib.gen_config(**kw))
        bsc = vlib.build("spvec_bfs_cfg_" + tag, "spvec_bfs.cpp", flags=vlib.BASE_FLAGS + ["-fno-access-control"], libs=(), cfg=vlib.gen_config(**kw))
        r = vlib.run_harness(bfc, ["--gcd-box", 64, "--inv-pmax", 64, "--prime-max", 100000, "--seed", vlib.seed()])
        c.add_run(r, "fp/primes argument boxes [build configuration %s] %s" % (tag, r["args"]), None, replay={"harness": "fp_enum"})
        r = vlib.run_harness(bsc, ["--configs", "fp:long:3:2:2,fp:int:5:2:2,fp:cpp_int:2:2:3"])
        c.add_run(r, "SpVecFP BFS [build configuration %s] %s" % (tag, r["args"]), None, replay={"harness": "spvec_bfs"})
    r2 = vlib.run_harness(bs, ["--configs", ",".join(cfgs)])
    c.add_run(r2, "SpVecFP BFS to fixpoint, configs P:p:R:D = " + ",".join(cfgs), None, replay={"harness": "spvec_bfs"})
    c.traces_validated = r2.get("transitions", 0)
    c.extra["model_binding"] = "the transition relation IS the implementation (real operators on real objects); the dense mod-p model is only the oracle"
    return c.finish()


def replay(prop, path):
    rp = vlib.load_replay(path)
    binary = _b_fp() if rp["case"].startswith("fn=") else _b_spvec()
    p = subprocess.run([binary, "--replay-case", rp["case"]], stdout=subprocess.PIPE, text=True)
    print(p.stdout)
    if "REPLAY-VIOLATION" in p.stdout or p.returncode < 0:      # a replay that dies on a signal reproduces a crash
        print("VIOLATION property=%s replay=%s" % (prop, path))
        return 1
    return 0
