"""C01 / C02: shared description of the exact-algorithm input-space exploration."""
import vlib

C01_CLASSES = {"wrong-count", "empty-cycle", "foreign-edge", "repeated-edge", "not-simple-cycle", "dependent"}
C02_CLASSES = {"return-mismatch", "not-minimum", "weight-vector", "unweighable-output"}

RULE = ("every labelled simple graph on exactly n vertices (all 2^(n(n-1)/2) edge subsets, edges inserted in "
        "lexicographic order; additionally with every edge / every second edge handed to add_edge in reversed orientation) x every function E->alphabet (U={1}, A2={1,2}, A3={1,2,3}, D={.25,.5,.75}, B2/B3 = 2^25+{1,2[,3]}; PM / PM2 = all m! assignments of the distinct weights 1..m / 2^0..2^(m-1)) x each of "
        "mcb_sva_signed / mcb_sva_fvs_trees / mcb_sva_iso_trees, plus named families with all weightings; oracle = "
        "all simple cycles + GF(2) greedy reference (Horton-collection reference above cycle space dimension 15); a fixed menu of pseudo-random sparse graphs (deterministic generator, enumerated completely). evaluations = algorithm runs; distinct_nontrivial = distinct "
        "(graph, weighting, weight type) inputs whose cycle space dimension is >= 1 (enumeration never repeats an input)")


FAMS_SYM = "antiprism:4,antiprism:5,antiprism:6,antiprism:7,prism:4,prism:5,prism:6,prism:7,prism:8,mobius:4,mobius:5,mobius:6,mobius:7,mobius:8,petersen,cube:3,Kb:3:3,wheel:6,torus:3:3"


def lcg_menu(ns, ratios, seeds):
    """Fixed menu of pseudo-random sparse graphs (deterministic LCG): a finite corpus enumerated completely on every run."""
    return ",".join("lcg:%d:%d:%d" % (n, int(n * r), s) for n in ns for r in ratios for s in range(seeds))


def runs(tier):
    q = [
        ("G(0..4) x A3, double", [["--n", n, "--alpha", "A3"] for n in range(0, 5)]),
        ("G(5) x A2, double", [["--n", 5, "--alpha", "A2"]]),
        ("G(0..4) x A2, int", [["--n", n, "--alpha", "A2", "--wtype", "int"] for n in range(0, 5)]),
        ("G(0..4) x D, double", [["--n", n, "--alpha", "D"] for n in range(0, 5)]),
        ("G(5) x A3, double", [["--n", 5, "--alpha", "A3"]]),
        ("edge orientation (source/target as handed to add_edge) reversed / alternating: G(0..4) x A3, G(5) x A2", [["--n", n, "--alpha", "A3", "--orient", o] for n in range(2, 5) for o in (1, 2)] + [["--n", 5, "--alpha", "A2", "--orient", o] for o in (1, 2)]),
        ("G(6) x U, double", [["--n", 6, "--alpha", "U"]]),
        ("edge insertion order reversed / interleaved: G(4) x A3, G(5) x A2", [["--n", 4, "--alpha", "A3", "--eorder", o] for o in (1, 2)] + [["--n", 5, "--alpha", "A2", "--eorder", o] for o in (1, 2)]),
        ("positional output iterator (begin() of a pre-sized vector instead of a back_inserter): G(4) x A3, G(5) x A2, blob grammar x M2", [["--n", 4, "--alpha", "A3", "--outiter", 1], ["--n", 5, "--alpha", "A2", "--outiter", 1], ["--grammar", "blobs:3:2", "--alpha", "M2", "--outiter", 1]]),
        ("output iterator whose sink copies what it is assigned (boost::function_output_iterator over a callback taking a const reference): G(4) x A3, G(5) x A2", [["--n", 4, "--alpha", "A3", "--outiter", 2], ["--n", 5, "--alpha", "A2", "--outiter", 2]]),
        ("exterior weight map (associative map over a std::map while the graph's interior edge_weight property holds decoy values): G(4) x A3 double and int, G(5) x A2, 720 pseudo-random sparse graphs n=8..14 x 2 weightings",
         [["--n", 4, "--alpha", "A3", "--wmap", 1], ["--n", 4, "--alpha", "A3", "--wmap", 1, "--wtype", "int"], ["--n", 5, "--alpha", "A2", "--wmap", 1],
          ["--families", lcg_menu((8, 10, 12, 14), (1.3, 1.6, 2.0), 60), "--alpha", "R9x2", "--wmap", 1]]),
        ("other build configurations of the library (config.hpp): PARMCB_LOGGING on, PARMCB_INVARIANTS_CHECK off: G(4) x A3, G(5) x A2, G(5) x U reversed orientation",
         [[t, "--n", 4, "--alpha", "A3"] for t in ("@log", "@noinv")] + [[t, "--n", 5, "--alpha", "A2"] for t in ("@log", "@noinv")] + [["@log", "--n", 5, "--alpha", "U", "--orient", 1]]),
        ("the library compiled as C++17 (language standard of the including translation unit; evaluation order and library behaviour differ from C++14): G(4) x A3, G(5) x A2", [["@cxx17", "--n", 4, "--alpha", "A3"], ["@cxx17", "--n", 5, "--alpha", "A2"]]),
        ("another graph type (vertex property present, edge_weight behind an edge_index property): G(4) x A3, G(5) x A2, blob grammar x M2", [["@altgraph", "--n", 4, "--alpha", "A3"], ["@altgraph", "--n", 5, "--alpha", "A2"], ["@altgraph", "--grammar", "blobs:3:2", "--alpha", "M2"]]),
        ("G(5) with at most 7 edges x PM2 (every assignment of the distinct weights 2^0..2^(m-1): unique optimum, no ties that could mask a lost candidate)", [["--n", 5, "--alpha", "PM2", "--max-m", 7]]),
        ("weights with 26 significant bits (2^25 + {1,2,3}: competing cycles differ by units at magnitude 1e8): G(4) x B3 double and int, G(5) x B2 double",
         [["--n", 4, "--alpha", "B3"], ["--n", 4, "--alpha", "B3", "--wtype", "int"], ["--n", 5, "--alpha", "B2"]]),
        ("weights spanning 60 binary orders of magnitude: G(4) x A3 and G(5) x A2 (at most 8 edges), each with one more component = a single edge weighing 2^60",
         [["--n", 4, "--alpha", "A3", "--plus-heavy-k2"], ["--n", 5, "--alpha", "A2", "--max-m", 8, "--plus-heavy-k2"]]),
        ("pairwise distinct weights with tied paths: G(4) x PM, G(5) with at most 6 edges x PM (all assignments of 1..m)", [["--n", 4, "--alpha", "PM"], ["--n", 5, "--alpha", "PM", "--max-m", 6]]),
        ("blob grammar K=3,T=2 x patterns U, M2, M3", [["--grammar", "blobs:3:2", "--alpha", a] for a in ("U", "M2", "M3")]),
        ("dense families x U", [["--families", "K:6,K:7,wheel:6,prism:4,petersen,Kb:3:4,grid:3:4,cube:3", "--alpha", "U"]]),
        ("complete graphs K8..K11 and K8 / K9 with pendant vertices x menus R9x100, R3x100, R30x40 (supports with at least |V| entries before the last phase: the search-from-every-vertex branch of the signed variant; Horton reference)",
         [["--families", "K:8,K:9,K:10,K:11,Kp:8:1,Kp:9:2,pK:8:1", "--alpha", a, "--wchunks", 8] for a in ("R9x100", "R3x100", "R30x40")]),
        ("dense families x menu Q36x100 (100 pseudo-random dyadic weightings, quarters)", [["--families", "K:6,K:7,Kp:7:1,wheel:7,Kb:3:4", "--alpha", "Q36x100", "--wchunks", 4]]),
        ("symmetric families (antiprisms, prisms, Moebius ladders, ...) under 60 renumberings x U and under 30 renumberings x M2",
         [["--families", FAMS_SYM, "--relabel", 60, "--alpha", "U"], ["--families", FAMS_SYM, "--relabel", 30, "--alpha", "M2"]]),
        ("G(6) x A2, graphs with >= 12 edges, mcb_sva_signed (support vectors with several entries: hidden-edge heuristic)", [["--n", 6, "--alpha", "A2", "--min-m", 12, "--variants", "signed"]]),
        ("fixed menu: 2400 pseudo-random sparse graphs n=8..24 x 4 pseudo-random weightings in 1..9 (Horton reference above dimension 15)",
         [["--families", lcg_menu((8, 10, 12, 14, 16, 18, 20, 24), (1.3, 1.6, 2.0), 100), "--alpha", "R9x4"],
          ["--families", lcg_menu((8, 10, 12, 14, 16, 18, 20, 24), (1.3, 1.6, 2.0), 100), "--alpha", "R9x2", "--orient", 2]]),
    ]
    if tier == "quick":
        return q
    t = q + [
        ("G(5) x A3, int", [["--n", 5, "--alpha", "A3", "--wtype", "int"]]),
        ("G(5) with at most 8 edges x PM (every assignment of the distinct weights 1..m), G(5) with 8 edges x PM2, G(6) with at most 6 edges x PM2",
         [["--n", 5, "--alpha", "PM", "--max-m", 8], ["--n", 5, "--alpha", "PM2", "--min-m", 8, "--max-m", 8], ["--n", 6, "--alpha", "PM2", "--max-m", 6]]),
        ("G(5) x D, double", [["--n", 5, "--alpha", "D"]]),
        ("blob grammar K=3,T=3 x patterns U, M2", [["--grammar", "blobs:3:3", "--alpha", a] for a in ("U", "M2")]),
        ("families x A2", [["--families", "wheel:5,wheel:6,prism:3,prism:4,Kb:3:3,cube:3,grid:3:3,petersen,Kb:2:5,grid:2:5", "--alpha", "A2"]]),
        ("fixed menu: 8000 pseudo-random graphs n=7..30 x 6 weightings in 1..9 and x 3 weightings in 1..3",
         [["--families", lcg_menu((7, 9, 11, 13, 15, 17, 19, 22, 26, 30), (1.2, 1.5, 1.8, 2.2), 200), "--alpha", a] for a in ("R9x6", "R3x3")]),
        ("G(5) x A3 reversed orientation, G(6) x U both non-default orientations", [["--n", 5, "--alpha", "A3", "--orient", 1], ["--n", 6, "--alpha", "U", "--orient", 1], ["--n", 6, "--alpha", "U", "--orient", 2]]),
        ("G(6) x A2, double", [["--n", 6, "--alpha", "A2"]]),
        ("G(7) x U, double", [["--n", 7, "--alpha", "U"]]),
    ]
    return t


def run(prop, tier):
    classes = C01_CLASSES if prop == "C01" else C02_CLASSES
    c = vlib.Check(prop, tier, "exploration", RULE, "exact")
    c.deadline = 170 if tier == "quick" else 1500
    c.assumptions = ["reference oracle (DFS enumeration of all simple cycles, GF(2) greedy) is correct; it shares no code with parmcb",
                     "weights are integers or dyadic so double arithmetic in the oracle is exact",
                     "harness compiled with the shipped configuration (-O2 -DNDEBUG, PARMCB_INVARIANTS_CHECK on)"]
    binary = vlib.build("exact", "exact.cpp")
    # the library's other build configurations (config.hpp options): logging on; invariant checks off
    cfgbin = {"@altgraph": vlib.build("exact_altgraph", "exact.cpp", flags=vlib.BASE_FLAGS + ["-DVH_GRAPH_ALT"]),
              "@log": vlib.build("exact_cfg_log", "exact.cpp", cfg=vlib.gen_config(logging=True)),
              "@noinv": vlib.build("exact_cfg_noinv", "exact.cpp", cfg=vlib.gen_config(invariants=False)),
              "@cxx17": vlib.build("exact_cxx17", "exact.cpp", flags=vlib.CXX17_FLAGS)}
    c.builds_done()
    for bound, arglists in runs(tier):
        for args in arglists:
            rem = c.remaining()
            tag = args[0] if args and str(args[0]).startswith("@") else None
            if tag:
                args = args[1:]
            r = vlib.run_harness(cfgbin[tag] if tag else binary, list(args) + ["--props", prop, "--seed", vlib.seed(), "--deadline-s", int(rem)])
            c.add_run(r, bound + ((" [%s]" % tag[1:]) if tag else "") + " :: " + r["args"], classes, replay={"harness": {"@log": "exact_cfg_log", "@noinv": "exact_cfg_noinv", "@altgraph": "exact_altgraph", "@cxx17": "exact_cxx17"}.get(tag, "exact")})
    return c.finish()


def replay(prop, path):
    rp = vlib.load_replay(path)
    h = (rp.get("replay") or {}).get("harness", "exact")
    binary = vlib.build(h, "exact.cpp", flags=(vlib.CXX17_FLAGS if h == "exact_cxx17" else vlib.BASE_FLAGS) + (["-DVH_GRAPH_ALT"] if h == "exact_altgraph" else []), cfg=vlib.gen_config(logging=(h == "exact_cfg_log"), invariants=(h != "exact_cfg_noinv")))
    import subprocess
    p = subprocess.run([binary, "--replay-case", rp["case"], "--props", prop] + vlib.replay_opts(rp), stdout=subprocess.PIPE, text=True)
    print(p.stdout)
    if "REPLAY-VIOLATION" in p.stdout or p.returncode < 0:      # a replay that dies on a signal reproduces a crash
        print("VIOLATION property=%s replay=%s" % (prop, path))
        return 1
    return 0
