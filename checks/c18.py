from checks import _spvec
def run(tier): return _spvec.run18(tier)
def replay(path): return _spvec.replay("C18", path)
