"""C10: DIMACS reader over a bounded text grammar + validators over all small multigraphs."""
import subprocess
import vlib

RULE = ("reader: every text 'comment? p-line (comment? edge-line)^L comment?' with n in 0..3, L edge lines each (e|a) u v [w] with u,v in 0..4 (thorough: -1..4; names outside 1..n are undeclared), "
        "w in {omitted,1,15,2.5,100,1.5e1[,0.125,7,2.5E-1,1e+2]}, comment in {none,'c ..','# ..'} at every position, final newline present/absent; read through fmemopen and compared field by field "
        "with the generator's model (undeclared vertex must raise std::system_error). validators: every multigraph on 1..3 vertices with up to E edges (loops, parallel edges in both "
        "orientations) x weights {-1,0,0.5,1}. distinct_nontrivial = distinct texts with >= 1 edge line / multigraphs with >= 1 edge")


def _build():
    return vlib.build("dimacs", "dimacs.cpp")


def run(tier):
    c = vlib.Check("C10", tier, "exploration", RULE, "dimacs")
    c.deadline = 170 if tier == "quick" else 1500
    c.assumptions = ["all lines are shorter than the reader's 1024-byte buffer (as the property states); every length below it is enumerated for one line at a time", "fmemopen streams behave like files for fgets"]
    b = _build()
    c.builds_done()
    plan = [("reader L<=2, full alphabet", ["--mode", "reader", "--lines", 2]), ("validators, <=3 edges", ["--mode", "validators", "--max-edges", 3]),
            ("validators on large degrees: two hubs of degree 1..41 and around 64 / 128 / 256, one offending edge (parallel copy in either orientation, self-loop, weight 0) at every position of the edge sequence", ["--mode", "validators-large"]),
            ("reader into other graph types (edge_weight behind an edge_index property; list-based out-edges with vertex and edge properties): L<=2, 4 weight spellings, <=1 comment line",
             ["--mode", "reader", "--lines", 2, "--nweights", 4, "--max-comments", 1, "--graph-type", 1]),
            ("reader fed through the read end of a pipe (a FILE* that cannot seek or tell): L<=2, 4 weight spellings, <=1 comment line", ["--mode", "reader", "--lines", 2, "--nweights", 4, "--max-comments", 1, "--stream", 1]),
            ("reader fed from a regular temporary file (seekable): L<=1, full alphabet", ["--mode", "reader", "--lines", 1, "--stream", 2]),
            ("reader into other graph types, second type", ["--mode", "reader", "--lines", 2, "--nweights", 4, "--max-comments", 1, "--graph-type", 2]),
            ("reader, one line stretched to every length 1..1022 (+ newline) / 1..1023 (final line without newline): comment 'c'/'#' at each of 4 positions, zero-padded decimal weight on each of 3 edge lines", ["--mode", "longlines"])]
    if tier == "thorough":
        plan += [("reader L<=3, u,v in 1..3, 3 weight spellings, <=1 comment line", ["--mode", "reader", "--lines", 3, "--maxv", 3, "--nweights", 3, "--max-comments", 1]),
                 ("reader L<=2, names -1..4", ["--mode", "reader", "--lines", 2, "--minv", -1, "--nweights", 3, "--max-comments", 1]),
                 ("reader L<=2, 10 weight spellings", ["--mode", "reader", "--lines", 2, "--nweights", 10, "--max-comments", 2]),
                 ("validators, <=5 edges", ["--mode", "validators", "--max-edges", 5])]
    for bound, args in plan:
        r = vlib.run_harness(b, list(args) + ["--seed", vlib.seed(), "--deadline-s", int(c.remaining())])
        c.add_run(r, bound + " :: " + r["args"], None, replay={"harness": "dimacs"})
    return c.finish()


def replay(path):
    rp = vlib.load_replay(path)
    p = subprocess.run([_build(), "--replay-case", rp["case"]], stdout=subprocess.PIPE, text=True)
    print(p.stdout)
    if "REPLAY-VIOLATION" in p.stdout or p.returncode < 0:      # a replay that dies on a signal reproduces a crash
        print("VIOLATION property=C10 replay=%s" % path)
        return 1
    return 0
