from checks import _exact
def run(tier): return _exact.run("C02", tier)
def replay(path): return _exact.replay("C02", path)
