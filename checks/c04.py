"""C04: MPI entry points for every rank count, reduce combination order and per-rank heap layout (vmpi + vtbb shims),
bound to the real Boost.MPI / OpenMPI stack by mpiexec conformance runs."""
import os
import subprocess
import vlib
from checks._exact import FAMS_SYM

VMPI = os.path.join(vlib.VERIF, "shim", "vmpi")
VTBB = os.path.join(vlib.VERIF, "shim", "vtbb")
MPI_INC = ["/usr/lib/x86_64-linux-gnu/openmpi/include", "/usr/lib/x86_64-linux-gnu/openmpi/include/openmpi"]
MPI_LIBS = ("-lboost_mpi", "-lboost_serialization", "-lboost_timer", "-ltbb", "-lpthread", "-L/usr/lib/x86_64-linux-gnu/openmpi/lib", "-lmpi_cxx", "-lmpi")
RULE = ("every labelled graph of G(n) x weighting x each of the 5 MPI entry points x communicator size P: P rank threads with private graph copies run the unmodified code on the "
        "vmpi shim under a baton scheduler; explorer choices = per-rank heap layout of the edge nodes (pointer order; ORDER), nested TBB schedule (ORDER), result of every reduce "
        "over all combination orders/parenthesisations (OUTCOME; complete unless a bound on non-default outcomes is stated for the run); deadlock = no runnable rank and not all ranks in the same collective. Oracle: all ranks return, "
        "rank 0 output passes the C01/C02 oracles, other ranks emit nothing. states = choice-tree nodes, transitions = choices executed, evaluations = complete executions")


def builds():
    return vlib.build_many([
        dict(name="sched_mpi", src="sched_mpi.cpp", shim_first=[VMPI, VTBB], libs=("-lboost_timer", "-lboost_serialization", "-lpthread")),
        dict(name="sched_mpi_cfg_log", src="sched_mpi.cpp", shim_first=[VMPI, VTBB], libs=("-lboost_timer", "-lboost_serialization", "-lpthread"), cfg=vlib.gen_config(logging=True)),
        dict(name="sched_mpi_cfg_noinv", src="sched_mpi.cpp", shim_first=[VMPI, VTBB], libs=("-lboost_timer", "-lboost_serialization", "-lpthread"), cfg=vlib.gen_config(invariants=False)),
        dict(name="mpi_conf_model", src=os.path.join(vlib.VERIF, "conformance", "mpi_conf.cpp"), flags=["-std=c++14", "-O1", "-w", "-DCONF_VMPI"], shim_first=[VMPI, VTBB],
             libs=("-lboost_timer", "-lboost_serialization", "-lpthread")),
        dict(name="mpi_conf_real", src=os.path.join(vlib.VERIF, "conformance", "mpi_conf.cpp"), flags=["-std=c++14", "-O1", "-w"], includes=MPI_INC, libs=MPI_LIBS),
    ])


def conformance(c, b, tier):
    ps = [1, 2, 3] if tier == "quick" else [1, 2, 3, 4, 5]
    validated, skipped = 0, []
    for P in ps:
        m = subprocess.run([b["mpi_conf_model"], str(P)], stdout=subprocess.PIPE, stderr=subprocess.STDOUT, text=True, timeout=300)
        if m.returncode != 0:
            raise vlib.HarnessError("mpi_conf_model failed: " + m.stdout[-500:])
        model = set(l for l in m.stdout.splitlines() if l and not l.startswith("---"))
        try:
            r = subprocess.run(["mpiexec", "--allow-run-as-root", "--oversubscribe", "-n", str(P), b["mpi_conf_real"]], stdout=subprocess.PIPE, stderr=subprocess.PIPE, text=True, timeout=120,
                               env=dict(os.environ, OMPI_MCA_rmaps_base_oversubscribe="1", OMPI_ALLOW_RUN_AS_ROOT="1", OMPI_ALLOW_RUN_AS_ROOT_CONFIRM="1"))
        except (subprocess.TimeoutExpired, FileNotFoundError) as e:
            skipped.append("P=%d: %s" % (P, type(e).__name__)); continue
        if r.returncode != 0:
            skipped.append("P=%d: mpiexec exit %d: %s" % (P, r.returncode, r.stderr[-200:])); continue
        real = [l for l in r.stdout.splitlines() if l.strip()]
        def key(line):
            return " ".join(t for t in line.split() if not t.startswith(("weight=", "cycles=")))
        model_keys = set(key(l) for l in model)
        for l in real:
            if l not in model:
                if key(l) in model_keys:
                    # same entry point on the same graph, different result: the REAL Boost.MPI/OpenMPI run (separate processes,
                    # their own heap layouts) returned something that no explored execution of the model returns
                    want = sorted(m for m in model if key(m) == key(l))
                    c.violations.append({"site": "mpi entry point (real mpiexec)", "class": "real-mpi-result", "case": "mpiexec -n %d conformance program: %s" % (P, key(l)),
                                         "msg": "real run printed %r, every execution of the model prints one of %r" % (l, want[:3]), "replay": {"harness": "mpiexec"}})
                    continue
                # the real stack did something the model has no counterpart for: model too small -> harness error
                raise vlib.HarnessError("real mpiexec -n %d printed a line outside the model's outcome set: %r" % (P, l))
        validated += len(real)
    c.traces_validated = (c.traces_validated or 0) + validated
    c.extra["mpiexec_conformance"] = {"process_counts": ps, "observations_validated": validated, "skipped": skipped}
    if skipped:
        c.notes.append("mpiexec conformance skipped for: " + "; ".join(skipped))


def run(tier):
    c = vlib.Check("C04", tier, "model_checking", RULE, "sched_mpi")
    c.deadline = 170 if tier == "quick" else 4200
    c.assumptions = ["collectives have their MPI-standard meaning; the only freedom is the combination order of a reduction whose operator is declared commutative (enumerated)",
                     "ranks share no memory, so interleaving between collectives is irrelevant; thorough tier re-runs every execution under the reversed baton order and requires identical observations",
                     "heap layout = relative address order of the edge-list nodes of each rank's graph (the only addresses parmcb orders by); set through a slab allocator and asserted",
                     "point-to-point messaging is not used by parmcb and not modelled"]
    b = builds()
    c.builds_done()
    conformance(c, b, tier)
    ex = b["sched_mpi"]
    def quick_rows():
        return [("G(0..3) x A2, P in {1,2,3}, layouts {id,rev}, bound 1", [["--n", n, "--alpha", "A2", "--P", "1,2,3", "--bound", 1] for n in range(0, 4)]),
                ("G(4) x A2, P in {1,2,3}, layouts {id,rev}, bound 1", [["--n", 4, "--alpha", "A2", "--P", "1,2,3", "--bound", 1]]),
                ("G(4) x A2 with reversed edge orientation, P in {2,3}, bound 1", [["--n", 4, "--alpha", "A2", "--P", "2,3", "--bound", 1, "--orient", 1]]),
                ("G(4) x A2 with reversed / interleaved edge insertion order, P in {2,3}, bound 1", [["--n", 4, "--alpha", "A2", "--P", "2,3", "--bound", 1, "--eorder", o] for o in (1, 2)]),
                ("G(4) x A2, P=2, all m! layouts for m<=4 / adjacent transpositions, bound 1", [["--n", 4, "--alpha", "A2", "--P", "2", "--bound", 1, "--layouts", 1]]),
                ("G(4) x U, P in {4,5,7} (more ranks than vertices/candidates), bound 1", [["--n", 4, "--alpha", "U", "--P", "4,5,7", "--bound", 1]]),
                ("G(5) x U, P in {2,3}, bound 1", [["--n", 5, "--alpha", "U", "--P", "2,3", "--bound", 1]]),
                ("G(5) x A2, dim >= 5, signed + isometric entry points, P in {3,4,5}, default layout/schedule, default reduce outcome",
                 [["--n", 5, "--alpha", "A2", "--P", "3,4,5", "--bound", 0, "--min-dim", 5, "--outcome-bound", 0, "--variants", "signed_mpi,iso_tbb_mpi"]]),
                ("G(5) with 5..7 edges x PM2 (every assignment of the distinct weights 2^0..2^(m-1): unique optima, no ties that could mask a lost candidate), mcb_sva_signed_mpi, P in {2,3}, default schedule",
                 [["--n", 5, "--alpha", "PM2", "--min-m", 5, "--max-m", 7, "--P", "2,3", "--bound", 0, "--variants", "signed_mpi", "--outcome-bound", 0]]),
                ("symmetric families under 60 renumberings x U, P in {2,3}; under 20 renumberings x M2, P in {2,3,4}, at most one non-default reduce outcome",
                 [["--families", FAMS_SYM, "--relabel", 60, "--alpha", "U", "--P", "2,3", "--bound", 0, "--outcome-bound", 0], ["--families", FAMS_SYM, "--relabel", 20, "--alpha", "M2", "--P", "2,3,4", "--bound", 0, "--outcome-bound", 1]]),
                ("G(4) x A2 plus one more component = a single edge weighing 2^60, P in {2,3}, bound 1", [["--n", 4, "--alpha", "A2", "--plus-heavy-k2", "--P", "2,3", "--bound", 1]]),
                ("sub-communicators (the entry points take a communicator, not the world): world split by rank parity, P in {2,3,4}, and every rank alone in its own communicator, P in {2,3}: G(4) x A2, bound 1; K6 x A2, mcb_sva_signed_mpi, P=4 split by parity",
                 [["--n", 4, "--alpha", "A2", "--P", "2,3,4", "--bound", 1, "--subcomm", 1], ["--n", 4, "--alpha", "A2", "--P", "2,3", "--bound", 1, "--subcomm", 2],
                  ["--families", "K:6", "--alpha", "A2", "--P", "4", "--variants", "signed_mpi", "--bound", 0, "--wchunks", 64, "--outcome-bound", 0, "--subcomm", 1]]),
                ("other build configurations of the library (PARMCB_LOGGING on / PARMCB_INVARIANTS_CHECK off): G(4) x A2, P in {2,3}, default schedule and layouts",
                 [["@sched_mpi_cfg_log", "--n", 4, "--alpha", "A2", "--P", "2,3", "--bound", 0], ["@sched_mpi_cfg_noinv", "--n", 4, "--alpha", "A2", "--P", "2,3", "--bound", 0]]),
                ("K6 x A2 (32768 weightings; dense branch |S| >= n, ranks with empty slices), mcb_sva_signed_mpi, P=4, default outcome",
                 [["--families", "K:6", "--alpha", "A2", "--P", "4", "--variants", "signed_mpi", "--bound", 0, "--wchunks", 64, "--outcome-bound", 0]])]
    plan = quick_rows()
    if tier != "quick":
        # thorough = the quick rows + deeper rows; every deeper row carries its own budget (about twice its measured cost on a
        # loaded machine) so that a row that turns out heavier is reported as capped instead of starving the rows after it
        plan = quick_rows() + [
                ("G(5) with 5..7 edges x PM2, all entry points, P in {2,3}, default schedule", [["--n", 5, "--alpha", "PM2", "--min-m", 5, "--max-m", 7, "--P", "2,3", "--bound", 0, "--outcome-bound", 0]], 400),
                ("G(5) with 5..7 edges x PM and G(5) with 5..8 edges x A3, mcb_sva_signed_mpi, P in {2,3}, default schedule",
                 [["--n", 5, "--alpha", "PM", "--min-m", 5, "--max-m", 7, "--P", "2,3", "--bound", 0, "--outcome-bound", 0, "--variants", "signed_mpi"],
                  ["--n", 5, "--alpha", "A3", "--min-m", 5, "--max-m", 8, "--P", "2,3", "--bound", 0, "--variants", "signed_mpi", "--outcome-bound", 0]], 120),
                ("G(0..4) x A2, P in {1,2,3,4}, all layouts m<=4 / id,rev,adjacent transpositions, bound 2, both baton orders",
                 [["--n", n, "--alpha", "A2", "--P", "1,2,3,4", "--bound", 2, "--layouts", 1, "--baton-rev"] for n in range(0, 5)], 1000),
                ("G(4) x A3, P in {2,3}, bound 1", [["--n", 4, "--alpha", "A3", "--P", "2,3", "--bound", 1]], 120),
                ("G(4) x U, P in {5,7}, bound 2", [["--n", 4, "--alpha", "U", "--P", "5,7", "--bound", 2]], 200),
                ("G(5) x U, P in {2,3,4,5}, bound 1", [["--n", 5, "--alpha", "U", "--P", "2,3,4,5", "--bound", 1]], 400),
                ("G(5) x A2, dim>=2, P in {2,3}, bound 1, at most one non-default reduce outcome", [["--n", 5, "--alpha", "A2", "--P", "2,3", "--bound", 1, "--min-dim", 2, "--outcome-bound", 1]], 900),
                ("K6, wheel:5, prism:3, K3,3 unit, P in {2,3,5}, bound 1, at most one non-default reduce outcome; K6, K7 unit, P in {2,3,5,7}, default schedule",
                 [["--families", "K:6,wheel:5,prism:3,Kb:3:3", "--alpha", "U", "--P", "2,3,5", "--bound", 1, "--outcome-bound", 1],
                  ["--families", "K:6,K:7", "--alpha", "U", "--P", "2,3,5,7", "--bound", 0, "--outcome-bound", 0]], 1200),
                ("K6 x A2, all entry points, P in {4,5}, default schedule, default reduce outcome",
                 [["--families", "K:6", "--alpha", "A2", "--P", "4,5", "--bound", 0, "--wchunks", 64, "--outcome-bound", 0]], 500),
                ("G(6) x A2, dim >= 8, mcb_sva_signed_mpi, P in {3,4,5}, default outcome", [["--n", 6, "--alpha", "A2", "--min-dim", 8, "--P", "3,4,5", "--variants", "signed_mpi", "--bound", 0, "--wchunks", 16, "--outcome-bound", 0]], 600)]
    for row in plan:
        bound, arglists = row[0], row[1]
        budget = row[2] if len(row) > 2 else None
        t_row = vlib.time.time()
        for args in arglists:
            dl = c.remaining(20)
            if budget is not None:
                dl = max(20, min(dl, budget - (vlib.time.time() - t_row)))
            hname = "sched_mpi"
            if args and str(args[0]).startswith("@"):
                hname, args = args[0][1:], args[1:]
            r = vlib.run_harness(b[hname], list(args) + ["--seed", vlib.seed(), "--deadline-s", int(dl)])
            c.add_run(r, bound + " :: " + r["args"], None, replay={"harness": hname})
            for k in ("reduce_max_outcomes", "inputs_hitting_execution_cap", "deadlock_states"):
                c.extra[k] = max(c.extra.get(k, 0), r.get(k, 0))
            for k in ("collectives_executed", "executions_with_nonidentity_layout", "reduce_multi_outcome_calls"):
                c.extra[k] = c.extra.get(k, 0) + r.get(k, 0)
    return c.finish()


def replay(path):
    rp = vlib.load_replay(path)
    b = builds()
    h = (rp.get("replay") or {}).get("harness", "sched_mpi")
    p = subprocess.run([b[h if h in b else "sched_mpi"], "--replay-case", rp["case"]], stdout=subprocess.PIPE, stderr=subprocess.STDOUT, text=True)
    print(p.stdout[-3000:])
    if "REPLAY-VIOLATION" in p.stdout or p.returncode < 0:      # a replay that dies on a signal reproduces a crash
        print("VIOLATION property=C04 replay=%s" % path)
        return 1
    return 0
