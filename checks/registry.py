"""What MANIFEST.json claims. bin/gen_manifest.py turns this into MANIFEST.json."""

HOOK_COMMITS = []

ENGINES = [
    {"name": "explorer", "path": "harness/common + lib/vlib.py", "serves_properties": [],
     "kind_free_text": "bounded exhaustive enumeration of inputs / schedules / histories executed on the real parmcb code, "
                       "16-way forked work queue with crash attribution"},
]

NOTES = ("All checks rebuild their harness from $PARMCB_REPO (default /repo) at run time; config.hpp is generated from "
         "config.hpp.in. Exit 2 = harness error (never a VIOLATION line).")

NOT_APPLICABLE = {}

_EXACT_NOTE = ("trusted: the ~150-line reference oracle (DFS enumeration of all simple cycles + GF(2) greedy), g++/Boost; "
               "bounded to graphs with n<=7 and the stated weight alphabets plus named families")

CLAIMED = {
    "C01": {"level": "exploration", "design_ref": "DESIGN.md section 3, C01",
            "technique": "bounded exhaustive input-space enumeration of the real code against an independent reference oracle",
            "text": "Every labelled graph up to the bound with every weighting over tie-heavy alphabets is run through all three exact "
                    "algorithms; count, simplicity, membership in the caller's graph and GF(2) independence are checked on every output. "
                    "Exhaustive within the bound (no sampling).",
            "note": _EXACT_NOTE},
    "C02": {"level": "exploration", "design_ref": "DESIGN.md section 3, C02",
            "technique": "bounded exhaustive input-space enumeration of the real code against an independent reference oracle",
            "text": "Same enumeration as C01; returned value == exact weight of emitted cycles == weight of the reference minimum basis, and "
                    "sorted weight vectors agree, on every input of the bound.",
            "note": _EXACT_NOTE},
    "C05": {"level": "exploration", "design_ref": "DESIGN.md section 3, C05",
            "technique": "bounded exhaustive input-space enumeration (graphs x weightings x k x variants) of the real code with a structural validator",
            "text": "Every graph of the bound x weighting x k x approximate variant; emitted cycles are validated against the caller's own edge "
                    "descriptors after the call returned, count/independence are checked and the returned value is compared with the caller-map weight.",
            "note": _EXACT_NOTE},
    "C06": {"level": "exploration", "design_ref": "DESIGN.md section 3, C06",
            "technique": "bounded exhaustive input-space enumeration against an independent optimum (all simple cycles + GF(2) greedy)",
            "text": "Same enumeration as C05 plus k=0: weight <= (2k-1) x reference optimum in exact arithmetic, equal sorted weight vectors for k=1, "
                    "std::runtime_error and no output for k=0; an output that is no basis at all is also a C06 failure.",
            "note": _EXACT_NOTE},
    "C15": {"level": "exploration", "design_ref": "DESIGN.md section 3, C15",
            "technique": "bounded exhaustive input-space enumeration with a white-box oracle on the private spanner state",
            "text": "For every graph x weighting x k the algorithm object is constructed and its private spanner, edge translation map and dropped-edge list "
                    "are checked: partition of E, weights copied, stretch <= 2k-1 through lighter retained edges (BFS), girth > 2k.",
            "note": _EXACT_NOTE + "; private members read with -fno-access-control"},
}
for k in CLAIMED:
    ENGINES[0]["serves_properties"].append(k)
