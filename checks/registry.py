"""What MANIFEST.json claims. bin/gen_manifest.py turns this into MANIFEST.json."""

HOOK_COMMITS = []

ENGINES = [
    {"name": "explorer", "path": "harness/common + lib/vlib.py", "serves_properties": [],
     "kind_free_text": "bounded exhaustive enumeration of inputs / schedules / histories executed on the real parmcb code, "
                       "16-way forked work queue with crash attribution"},
]

NOTES = ("All checks rebuild their harness from $PARMCB_REPO (default /repo) at run time; config.hpp is generated from "
         "config.hpp.in. Exit 2 = harness error (never a VIOLATION line).")

NOT_APPLICABLE = {}

_EXACT_NOTE = ("trusted: the ~150-line reference oracle (DFS enumeration of all simple cycles + GF(2) greedy), g++/Boost; "
               "bounded to graphs with n<=7 and the stated weight alphabets plus named families")

CLAIMED = {
    "C01": {"level": "exploration", "design_ref": "DESIGN.md section 3, C01",
            "technique": "bounded exhaustive input-space enumeration of the real code against an independent reference oracle",
            "text": "Every labelled graph up to the bound with every weighting over tie-heavy alphabets is run through all three exact "
                    "algorithms; count, simplicity, membership in the caller's graph and GF(2) independence are checked on every output. "
                    "Exhaustive within the bound (no sampling).",
            "note": _EXACT_NOTE},
    "C02": {"level": "exploration", "design_ref": "DESIGN.md section 3, C02",
            "technique": "bounded exhaustive input-space enumeration of the real code against an independent reference oracle",
            "text": "Same enumeration as C01; returned value == exact weight of emitted cycles == weight of the reference minimum basis, and "
                    "sorted weight vectors agree, on every input of the bound.",
            "note": _EXACT_NOTE},
    "C05": {"level": "exploration", "design_ref": "DESIGN.md section 3, C05",
            "technique": "bounded exhaustive input-space enumeration (graphs x weightings x k x variants) of the real code with a structural validator",
            "text": "Every graph of the bound x weighting x k x approximate variant; emitted cycles are validated against the caller's own edge "
                    "descriptors after the call returned, count/independence are checked and the returned value is compared with the caller-map weight.",
            "note": _EXACT_NOTE},
    "C06": {"level": "exploration", "design_ref": "DESIGN.md section 3, C06",
            "technique": "bounded exhaustive input-space enumeration against an independent optimum (all simple cycles + GF(2) greedy)",
            "text": "Same enumeration as C05 plus k=0: weight <= (2k-1) x reference optimum in exact arithmetic, equal sorted weight vectors for k=1, "
                    "std::runtime_error and no output for k=0; an output that is no basis at all is also a C06 failure.",
            "note": _EXACT_NOTE},
    "C15": {"level": "exploration", "design_ref": "DESIGN.md section 3, C15",
            "technique": "bounded exhaustive input-space enumeration with a white-box oracle on the private spanner state",
            "text": "For every graph x weighting x k the algorithm object is constructed and its private spanner, edge translation map and dropped-edge list "
                    "are checked: partition of E, weights copied, stretch <= 2k-1 through lighter retained edges (BFS), girth > 2k.",
            "note": _EXACT_NOTE + "; private members read with -fno-access-control"},
    "C12": {"level": "exploration", "design_ref": "DESIGN.md section 3, C12",
            "technique": "bounded exhaustive input-space enumeration (graphs x weightings x sources x vertex pairs) against Floyd-Warshall",
            "text": "One SPTree per source on every graph of the bound and on tie-heavy families; distances, tree shape, first-in-path and the cross-tree "
                    "reversal / sub-path consistency are checked for all ordered vertex pairs.",
            "note": "trusted: own Floyd-Warshall and path walker; bounded to n<=7 plus named families"},
    "C13": {"level": "exploration", "design_ref": "DESIGN.md section 3, C13",
            "technique": "bounded exhaustive input-space enumeration of all labelled graphs with a union-find acyclicity oracle",
            "text": "greedy_fvs on every labelled graph up to the bound and on named families; output vertices valid and distinct, remainder acyclic, empty for forests.",
            "note": "trusted: union-find; bounded to n<=7 (8 with m<=11) plus families"},
    "C14": {"level": "exploration", "design_ref": "DESIGN.md section 3, C14",
            "technique": "bounded exhaustive input-space enumeration with per-candidate structural oracle and GF(2) greedy sufficiency test against the reference optimum",
            "text": "Horton/FVS/ISO builders called directly on every graph x weighting of the bound: each candidate is a simple cycle through its root with the recorded weight, "
                    "FVS and ISO are sub-collections of Horton, and each collection contains a minimum basis.",
            "note": _EXACT_NOTE},
    "C16": {"level": "exploration", "design_ref": "DESIGN.md section 3, C16",
            "technique": "bounded exhaustive input-space enumeration of all labelled graphs and all edge insertion orders",
            "text": "ForestIndex on every labelled graph of the bound (and every insertion order for small graphs): bijection, inverse lookups, component count, dimension, forest flag, spanning forest.",
            "note": "trusted: union-find; bounded to n<=7 plus families"},
    "C17": {"level": "model_checking", "design_ref": "DESIGN.md section 3, C17",
            "technique": "explicit-state BFS to a fixpoint over the real SpVecGF2 objects (state = concrete private vectors), dense-bitmask reference model as oracle",
            "text": "All reachable states of 3 registers over a small coordinate alphabet under every public operation; canonical form and all observations checked after every transition; "
                    "states and transitions are exact counts of the reachable space.",
            "note": "the implementation itself is the transition relation (no abstract model); private state read/restored with -fno-access-control; dimension bounded"},
    "C18": {"level": "model_checking", "design_ref": "DESIGN.md section 3, C18",
            "technique": "explicit-state BFS to a fixpoint over real SpVecFP objects plus complete enumeration of argument boxes for ext_gcd / get_mult_inverse / is_prime",
            "text": "Every (a,b) of a box for ext_gcd and get_mult_inverse, every p up to a bound for is_prime, for int/long/cpp_int; every reachable state of two SpVecFP registers for p in {2,3,5,7} "
                    "under all operations and all scalars in [-p-1,2p+1].",
            "note": "integer extremes of built-in types excluded; the implementation itself is the transition relation"},
    "C10": {"level": "exploration", "design_ref": "DESIGN.md section 3, C10",
            "technique": "bounded exhaustive enumeration of a DIMACS text grammar and of all small multigraphs, executed on the real reader / predicates",
            "text": "Every text of the grammar (comments at every position, e/a lines, optional and decimal weights, undeclared vertices, final newline present or absent) is read "
                    "through fmemopen and compared field by field with the generator's model; the three predicates are compared with direct definitions on every small multigraph.",
            "note": "line length far below the 1024-byte buffer; fmemopen stands in for a file"},
    "C19": {"level": "exploration", "design_ref": "DESIGN.md section 3, C19",
            "technique": "complete enumeration of a finite program family (header x configuration, header pairs) with the compiler/linker as oracle",
            "text": "Every header alone and every pair of headers in two TUs, in three configurations (TBB+MPI, TBB only, neither with poisoned third-party headers); finite space enumerated completely.",
            "note": "one toolchain (g++ 12, Boost 1.83, oneTBB 2021.8, OpenMPI)"},
    "C03": {"level": "model_checking", "design_ref": "DESIGN.md section 3 C03, section 4.1, appendix A",
            "technique": "stateless model checking of the real TBB entry points on a controllable oneTBB shim: complete per-call enumeration of parallel_reduce executions, "
                         "deviation-bounded exploration of parallel_for / push_back / reduce schedules, ThreadSanitizer on a thread-per-leaf build, trace conformance against real oneTBB",
            "text": "Every legal execution of each parallel_reduce call (dynamic programme over partitions, accumulation runs and join trees) and every parallel_for partition/order/push "
                    "interleaving within the deviation bound is executed on the unmodified parmcb code for every graph x weighting of the bound, with the C01/C02 (exact) or C05/C06 "
                    "(approximate) oracle on every execution; races are checked by TSan on the finest partition; the shim's grammar is validated against recorded traces of the installed runtime.",
            "note": "trusted: the shim (~350 lines) as a model of oneTBB's contract, re-validated by conformance traces on each run; ORDER choices bounded (quick 1-2, thorough 2-3 deviations); "
                    "memory-model effects below data races are out of scope"},
    "C04": {"level": "model_checking", "design_ref": "DESIGN.md section 3 C04, section 4.2",
            "technique": "stateless model checking of the real MPI entry points on a controllable Boost.MPI shim (rank threads under a baton scheduler, explicit deadlock states, all reduce "
                         "combination orders, explorer-chosen per-rank heap layouts), with mpiexec conformance runs of the same sources on the real stack",
            "text": "For every graph x weighting of the bound, every entry point and every communicator size in the tier's set (incl. sizes exceeding vertices/candidates), every execution within the "
                    "deviation bound over per-rank pointer orders and nested TBB schedules, and every reduce outcome: all ranks return, rank 0 holds a minimum basis, others emit nothing.",
            "note": "trusted: the vmpi shim as a model of the MPI collectives used (validated against real mpiexec runs: collective semantics and entry-point outcomes must lie in the model's set); "
                    "P <= 7; layouts = relative order of edge-node addresses"},
    "C11": {"level": "model_checking", "design_ref": "DESIGN.md section 3, C11",
            "technique": "complete enumeration of a file x option matrix on the real executables, plus stateless model checking of the unmodified MPI demo on the vmpi shim (deadlock as an explicit state) for every file x option x process count, confirmed by mpiexec runs",
            "text": "Every (program, file, option combination) of the matrix is executed; invalid files must be rejected with a diagnostic and without running an algorithm, valid ones must print the optimum "
                    "computed by an independent Python reference. The MPI demo's 'all ranks terminate' is decided on the model for P up to 5 and cross-checked with the real binary under mpiexec.",
            "note": "files are a fixed menu (3 valid graphs, 15 invalid variants of K4); sequential demos observed as black boxes with a 20 s watchdog"},
    "C20": {"level": "model_checking", "design_ref": "DESIGN.md section 3, C20",
            "technique": "exhaustive enumeration of call sequences up to a depth against a one-variable reference automaton on the real oneTBB, and of the demos' option matrix with an in-process sampling seam",
            "text": "All sequences of up to 2 (thorough 4) calls over {1,2,3,5,16}, each in a fresh process, with active_value compared after every call and after a following library call; every "
                    "--parallel=true option combination of both demos sampled at the moment the algorithm is announced.",
            "note": "observation = tbb::global_control::active_value; distinct worker thread counts are recorded but not judged (oneTBB lets active workers leave lazily)"},
    "C07": {"level": "exploration", "design_ref": "DESIGN.md section 3, C07",
            "technique": "bounded exhaustive input/history/schedule enumeration re-run under AddressSanitizer + UBSan + LeakSanitizer (sanitizer as the oracle), with crash attribution to the exact case",
            "text": "The enumerations of the other properties (small universes) plus a menu of large instances are executed on sanitizer builds of the same harnesses; every returned descriptor is "
                    "dereferenced through the caller's map after return; leaks are checked after every work unit; thorough adds valgrind for uninitialised reads.",
            "note": "sanitizers detect what they document; the real libtbb is uninstrumented; inputs restricted to the valid domain"},
    "C08": {"level": "exploration", "design_ref": "DESIGN.md section 3, C08",
            "technique": "bounded exhaustive enumeration of metamorphic images (all renumberings / insertion orders / structural transformations of every small graph) and a completely enumerated menu of "
                         "large instances, against exact expected values and a second independent (Horton) reference",
            "text": "Every image of every base graph of the small universe under the complete transformation set must make every exact variant and backend (sequential, real oneTBB, MPI on the model) "
                    "return exactly the expected value; on large instances all variants and images agree and match an independent Horton-collection optimum, and every basis is validated structurally.",
            "note": "Horton reference cross-validated against the all-cycles reference on every run; large part is a fixed finite menu"},
    "C09": {"level": "exploration", "design_ref": "DESIGN.md section 3, C09",
            "technique": "bounded exhaustive input-space enumeration over decimal weight alphabets with an exact 128-bit fixed-point oracle",
            "text": "Every weighting over {0.1,0.2,0.3}(+0.7) of every graph of the bound (including all labelled hexagons, where direction-dependent rounding first matters) for all six exact variants; "
                    "validity, returned-value and 1e-9-optimality are judged in exact arithmetic. One known finding (isometric variant) is listed in known_findings.txt.",
            "note": "the property's domain is a continuum; only the stated decimal alphabets are covered"},
}
for k in CLAIMED:
    ENGINES[0]["serves_properties"].append(k)
