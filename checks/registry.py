"""What MANIFEST.json claims. bin/gen_manifest.py turns this into MANIFEST.json."""

HOOK_COMMITS = []

ENGINES = [
    {"name": "explorer", "path": "harness/common + lib/vlib.py", "serves_properties": [],
     "kind_free_text": "bounded exhaustive enumeration of inputs / schedules / histories executed on the real parmcb code, "
                       "16-way forked work queue with crash attribution"},
]

NOTES = ("All checks rebuild their harness from $PARMCB_REPO (default /repo) at run time; config.hpp is generated from "
         "config.hpp.in. Exit 2 = harness error (never a VIOLATION line).")

NOT_APPLICABLE = {}

_EXACT_NOTE = ("trusted: the ~150-line reference oracle (DFS enumeration of all simple cycles + GF(2) greedy), g++/Boost; "
               "bounded to graphs with n<=7 and the stated weight alphabets plus named families")

CLAIMED = {
    "C01": {"level": "exploration", "design_ref": "DESIGN.md section 3, C01",
            "technique": "bounded exhaustive input-space enumeration of the real code against an independent reference oracle",
            "text": "Every labelled graph up to the bound with every weighting over tie-heavy alphabets is run through all three exact "
                    "algorithms; count, simplicity, membership in the caller's graph and GF(2) independence are checked on every output. "
                    "Exhaustive within the bound (no sampling).",
            "note": _EXACT_NOTE},
    "C02": {"level": "exploration", "design_ref": "DESIGN.md section 3, C02",
            "technique": "bounded exhaustive input-space enumeration of the real code against an independent reference oracle",
            "text": "Same enumeration as C01; returned value == exact weight of emitted cycles == weight of the reference minimum basis, and "
                    "sorted weight vectors agree, on every input of the bound.",
            "note": _EXACT_NOTE},
}
for k in CLAIMED:
    ENGINES[0]["serves_properties"].append(k)
