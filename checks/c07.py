"""C07: sanitizer oracle (ASan + UBSan + LSan) over the harnesses of the other properties; valgrind memcheck for uninitialised reads."""
import os
import subprocess
import vlib

V = vlib.VERIF
RULE = ("the input-space, history and schedule harnesses of C01-C06, C08, C10, C12-C18 are rebuilt with -fsanitize=address,undefined -fno-sanitize-recover=undefined and re-run over their small universes "
        "plus a menu of large instances (up to 400 vertices, hubs with 80 neighbours, long BFS/Dijkstra frontiers); every returned edge descriptor is dereferenced through the caller's own weight map after "
        "the call returned; LeakSanitizer runs after every work unit; any report is attributed to the case being run (breadcrumb) and is a violation. Multi-threaded execution by the caller: two application threads call the sequential entry points concurrently on private graphs under ThreadSanitizer (hidden shared state = data race). thorough adds valgrind memcheck "
        "(uninitialised reads) over G(<=4) x U. evaluations = library calls executed under the sanitizers; distinct_nontrivial = distinct inputs with cycle space dimension >= 1 / non-empty histories")
LARGE = "wheel:80,grid:10:10,cube:7,K:12,brick:8:10,subgrid:5:5,torus:6:6,Kb:7:7"
LARGE_T = "wheel:200,grid:20:20,cube:8,K:20,brick:12:14,subgrid:8:8,Kb:12:12"


def builds():
    F = vlib.ASAN_FLAGS
    tbb = ("-lboost_timer", "-ltbb", "-lpthread")
    specs = [
        dict(name="exact_asan", src="exact.cpp", flags=F + ["-DVH_TBB"]),
        dict(name="approx_asan", src="approx.cpp", flags=F + ["-fno-access-control"]),
        dict(name="components_asan", src="components.cpp", flags=F),
        dict(name="dimacs_asan", src="dimacs.cpp", flags=F),
        dict(name="spvec_asan", src="spvec_bfs.cpp", flags=F + ["-fno-access-control"], libs=()),
        dict(name="fp_asan", src="fp_enum.cpp", flags=F, libs=()),
        dict(name="meta_asan", src="meta.cpp", flags=F),
        dict(name="sched_tbb_asan", src="sched_tbb.cpp", flags=F, shim_first=[V + "/shim/vtbb"], libs=("-lboost_timer", "-lpthread")),
        dict(name="reentrant_tsan", src="reentrant.cpp", flags=["-std=c++14", "-O1", "-g", "-w", "-fsanitize=thread", "-DNDEBUG", "-D" + vlib.GUARD], shim_first=[V + "/shim/vtbb"], libs=("-lboost_timer", "-lpthread")),
        dict(name="sched_mpi_asan", src="sched_mpi.cpp", flags=F + ["-DVMPI_THREADS"], shim_first=[V + "/shim/vmpi", V + "/shim/vtbb"], libs=("-lboost_timer", "-lboost_serialization", "-lpthread")),
    ]
    return vlib.build_many(specs)


def run(tier):
    c = vlib.Check("C07", tier, "exploration", RULE, "sanitizers")
    c.deadline = 175 if tier == "quick" else 1700
    c.assumptions = ["AddressSanitizer/UBSan/LSan (gcc 12) detect what they document; uninitialised reads only via valgrind (thorough)",
                     "real libtbb is not instrumented; its internals are trusted, parmcb's task bodies are instrumented",
                     "'valid input' = the exact domain of C01 (simple graphs, positive weights)"]
    b = builds()
    c.builds_done()
    t = tier == "thorough"
    env = dict(vlib.SAN_ENV)
    allv = "signed,fvs,iso,signed_tbb,fvs_tbb,iso_tbb"
    plan = [
        ("approx_asan", "approximate variants + spanner on large families (hubs, long BFS frontiers)", [["--families", LARGE, "--alpha", a, "--ks", "1,2,3,4,n+1"] for a in ("U", "M3")], {}),
        ("exact_asan", "exact variants (seq + real oneTBB), G(0..4) x A2, double+int", [["--n", n, "--alpha", "A2", "--variants", allv, "--workers", 8] for n in range(0, 5)] + [["--n", 4, "--alpha", "A2", "--wtype", "int"]], {}),
        ("exact_asan", "exact variants, G(5) x U and blob grammar", [["--n", 5, "--alpha", "U", "--variants", allv, "--workers", 8], ["--grammar", "blobs:2:2", "--alpha", "M2"]], {"VR_LEAK_EVERY": "16"}),
        ("exact_asan", "exact variants with an exterior weight map (stateful map object; interior property holds decoys) and with a positional output iterator, G(3..4) x A2",
         [["--n", n, "--alpha", "A2", "--variants", allv, "--workers", 8, "--wmap", 1] for n in (3, 4)] + [["--n", 4, "--alpha", "A2", "--variants", allv, "--workers", 8, "--outiter", 1]], {}),
        ("approx_asan", "approximate variants with a positional output iterator, G(4) x A2", [["--n", 4, "--alpha", "A2", "--ks", "1,2,3", "--outiter", 1]], {}),
        ("approx_asan", "approximate variants + spanner, G(0..4) x A2, k in {0,1,2,3,n+1}", [["--n", n, "--alpha", "A2", "--ks", "0,1,2,3,n+1"] for n in range(0, 5)], {}),
        ("approx_asan", "approximate variants, G(5) x U", [["--n", 5, "--alpha", "U", "--ks", "1,2,3"]], {}),
        ("components_asan", "SPTree / greedy_fvs / collections / ForestIndex, G(0..5) x U, G(4) x A2, blob grammar", [["--comp", cmp, "--n", n, "--alpha", "U"] for cmp in ("sptree", "fvs", "collections", "forest") for n in (0, 1, 2, 5)]
         + [["--comp", cmp, "--n", 4, "--alpha", "A2"] for cmp in ("sptree", "collections")] + [["--comp", cmp, "--grammar", "blobs:2:2"] for cmp in ("fvs", "forest")], {"VR_LEAK_EVERY": "16"}),
        ("components_asan", "components on large families", [["--comp", cmp, "--families", LARGE, "--alpha", "U"] for cmp in ("fvs", "forest")], {}),
        ("dimacs_asan", "DIMACS reader L<=2 (3 weight spellings, <=1 comment) + validators", [["--mode", "reader", "--lines", 2, "--nweights", 3, "--max-comments", 1], ["--mode", "validators", "--max-edges", 3]], {"VR_LEAK_EVERY": "8"}),
        ("spvec_asan", "SpVecGF2 / SpVecFP BFS", [["--configs", "gf2:3:2,gf2g:3:16-1-8-1,gf2g:3:1-16-1-8:i,fp:long:3:2:2,fp:cpp_int:5:2:2"]], {}),
        ("fp_asan", "fp / primes boxes", [["--gcd-box", 64, "--inv-pmax", 48, "--prime-max", 5000]], {}),
        ("meta_asan", "exact variants on large instances (real oneTBB)", [["--mode", "large", "--families", LARGE, "--patterns", "U,M3", "--few-images", "--workers", 8]], {}),
        ("sched_tbb_asan", "TBB entry points on the vtbb shim (explore mode), G(4) x A2", [["--n", 4, "--alpha", "A2", "--bound", 1, "--direct-bound", 1], ["--n", 4, "--alpha", "A2", "--bound", 0, "--direct-bound", -1, "--ks", "1,2"]], {}),
        ("reentrant_tsan", "re-entrancy: two application threads call the six sequential entry points at the same time on private copies of the input (ThreadSanitizer; any report is a data race), G(0..4) x A2, G(5) x U, tie-heavy families",
         [["--n", n, "--alpha", "A2"] for n in range(2, 5)] + [["--n", 5, "--alpha", "U"], ["--families", "grid:3:3,cube:3,K:6,wheel:6,petersen,Kb:3:3", "--alpha", "U"]], {"TSAN_OPTIONS": "halt_on_error=1 exitcode=66 report_signal_unsafe=0"}),
        ("sched_mpi_asan", "MPI entry points on the vmpi shim, G(3..4) x U, P in {2,3}", [["--n", 3, "--alpha", "U", "--P", "2,3", "--bound", 1], ["--n", 4, "--alpha", "U", "--P", "2,3", "--bound", 0]], {"ASAN_OPTIONS": vlib.SAN_ENV["ASAN_OPTIONS"] + ":alloc_dealloc_mismatch=0"}),
    ]
    if t:
        plan += [
            ("exact_asan", "exact variants, G(5) x A2, G(6) x U", [["--n", 5, "--alpha", "A2", "--variants", allv, "--workers", 8], ["--n", 6, "--alpha", "U"]], {"VR_LEAK_EVERY": "16"}),
            ("approx_asan", "approximate variants, G(5) x A2 and larger families", [["--n", 5, "--alpha", "A2", "--ks", "1,2,3"], ["--families", LARGE_T, "--alpha", "U", "--ks", "1,2,3,n+1"]], {"VR_LEAK_EVERY": "16"}),
            ("components_asan", "components, G(6) x U, G(5) x A2", [["--comp", cmp, "--n", 6, "--alpha", "U"] for cmp in ("sptree", "fvs", "collections", "forest")] + [["--comp", "collections", "--n", 5, "--alpha", "A2"]], {"VR_LEAK_EVERY": "64"}),
            ("meta_asan", "exact variants on larger instances", [["--mode", "large", "--families", LARGE_T, "--patterns", "U", "--few-images", "--workers", 8, "--no-ref"]], {}),
            ("meta_asan", "metamorphic images of G(4) x A2", [["--mode", "small", "--n", 4, "--alpha", "A2", "--perms", "menu", "--orders", "menu", "--unions", "few", "--workers", 8]], {"VR_LEAK_EVERY": "4"}),
        ]
    for name, bound, arglists, extra_env in plan:
        e = dict(env); e.update(extra_env)
        for args in arglists:
            r = vlib.run_harness(b[name], list(args) + ["--seed", vlib.seed(), "--deadline-s", int(c.remaining(30))], env=e)
            # only memory-safety classes belong to C07; functional classes belong to the other properties
            c.add_run(r, bound + " :: " + r["args"], {"crash", "hang", "exception", "leak", "sanitizer-report", "data-race", "concurrent-invalid-basis", "concurrent-return-mismatch", "concurrent-not-minimum", "concurrent-ratio"}, replay={"harness": name})
    if t:
        # uninitialised reads: valgrind over the plain exact / approx binaries on a small universe (single worker)
        pb = vlib.build_many([dict(name="exact", src="exact.cpp"), dict(name="approx", src="approx.cpp", flags=vlib.BASE_FLAGS + ["-fno-access-control"])])
        for name, args in (("exact", ["--n", "4", "--alpha", "U", "--workers", "1"]), ("approx", ["--n", "4", "--alpha", "U", "--ks", "1,2", "--workers", "1"])):
            out = os.path.join(vlib.BUILD, "out", "vg_%s.json" % name)
            p = subprocess.run(["valgrind", "-q", "--error-exitcode=99", "--trace-children=yes", "--track-origins=no", pb[name]] + args + ["--out", out], stdout=subprocess.PIPE, stderr=subprocess.STDOUT, text=True, timeout=1500)
            c.evaluations += 1
            c.bounds.append({"bound": "valgrind memcheck %s %s" % (name, " ".join(args)), "complete": True, "exit": p.returncode})
            if p.returncode == 99 or "uninitialised" in p.stdout:
                c.violations.append({"site": name, "class": "valgrind", "case": "valgrind %s %s" % (name, " ".join(args)), "msg": p.stdout[-600:], "replay": {"harness": "valgrind"}})
    return c.finish()


def replay(path):
    rp = vlib.load_replay(path)
    b = builds()
    h = (rp.get("replay") or {}).get("harness", "exact_asan")
    env = dict(os.environ); env.update(vlib.SAN_ENV)
    if h not in b:
        print("no replay binary for harness %s" % h); return 2
    p = subprocess.run([b[h], "--replay-case", rp["case"]] + (vlib.replay_opts(rp, ("--outiter", "--wmap") if h.startswith("exact") else ("--outiter",)) if h.startswith(("exact", "approx")) else []), stdout=subprocess.PIPE, stderr=subprocess.STDOUT, text=True, env=env)
    print(p.stdout[-4000:])
    if p.returncode in (67, 1) or "ERROR: AddressSanitizer" in p.stdout or "runtime error" in p.stdout or "LeakSanitizer" in p.stdout:
        print("VIOLATION property=C07 replay=%s" % path)
        return 1
    return 0
