"""C03: TBB entry points under every schedule (vtbb shim, explore + TSan thread mode) bound to the real oneTBB by trace conformance."""
import json
import os
import subprocess
import vlib
from checks._exact import FAMS_SYM

SHIM = os.path.join(vlib.VERIF, "shim", "vtbb")
TSAN_FLAGS = ["-std=c++14", "-O1", "-g", "-w", "-fsanitize=thread", "-DVTBB_THREADS", "-D" + vlib.GUARD]
STRUCT = None
RULE = ("schedule space of the unmodified TBB entry points on the vtbb shim: per parallel_reduce call ALL legal executions (leaf partitions x accumulation runs from the identity x "
        "order-preserving join trees) enumerated by dynamic programming with the explorer branching over distinct results, plus a direct-execution pass (explicit partition, order in "
        "time, continue-or-fresh) that is sound for bodies with side effects; parallel_for partitions / leaf orders / push_back interleavings as ORDER choices up to a deviation bound; "
        "inputs = every labelled graph of G(n) x every weighting; oracle = C01/C02 (exact) resp. C05/C06 (approximate) on every execution. Race half: same harness, thread-per-leaf shim "
        "under ThreadSanitizer. states = choice-tree nodes visited, transitions = choices executed, evaluations = complete executions; distinct_nontrivial = executions of inputs "
        "that have more than one schedule")


def builds():
    return vlib.build_many([
        dict(name="sched_tbb", src="sched_tbb.cpp", shim_first=[SHIM], libs=("-lboost_timer", "-lpthread")),
        dict(name="sched_tbb_tsan", src="sched_tbb.cpp", flags=TSAN_FLAGS, shim_first=[SHIM], libs=("-lboost_timer", "-lpthread")),
        dict(name="exact_realtbb", src="exact.cpp", flags=vlib.BASE_FLAGS + ["-DVH_TBB"]),
        dict(name="sched_tbb_cfg_log", src="sched_tbb.cpp", shim_first=[SHIM], libs=("-lboost_timer", "-lpthread"), cfg=vlib.gen_config(logging=True)),
        dict(name="sched_tbb_cfg_noinv", src="sched_tbb.cpp", shim_first=[SHIM], libs=("-lboost_timer", "-lpthread"), cfg=vlib.gen_config(invariants=False)),
    ])


def conformance(c, tier):
    out = os.path.join(vlib.BUILD, "bin", "tbb_conf")
    p = subprocess.run(["g++", "-std=c++14", "-O2", os.path.join(vlib.VERIF, "conformance", "tbb_conf.cpp"), "-o", out, "-ltbb", "-lpthread"],
                       stdout=subprocess.PIPE, stderr=subprocess.STDOUT, text=True)
    if p.returncode:
        raise vlib.HarnessError("tbb_conf build failed: " + p.stdout[-2000:])
    args = ["64", "16", "2"] if tier == "quick" else ["96", "16", "6"]
    p = subprocess.run([out] + args, stdout=subprocess.PIPE, stderr=subprocess.STDOUT, text=True)
    try:
        r = json.loads(p.stdout.strip().splitlines()[-1])
    except Exception:
        raise vlib.HarnessError("tbb_conf produced no result: " + p.stdout[-500:])
    c.traces_validated = (c.traces_validated or 0) + r["traces"] + r["for_traces"]
    c.extra["tbb_conformance"] = r
    if r["outside_grammar"]:
        # the real runtime did something the model cannot do: the model is too small -> harness error, not a violation
        raise vlib.HarnessError("real oneTBB produced a trace outside the vtbb grammar: " + r.get("first_bad", ""))
    if r.get("model_gap_observed"):
        c.notes.append("the installed oneTBB produced a body that kept accumulating after a join (B(lo,hi,J(..))); that shape is part of the explored grammar")


def run(tier):
    c = vlib.Check("C03", tier, "model_checking", RULE, "sched_tbb")
    c.deadline = 170 if tier == "quick" else 2400
    c.assumptions = ["the legal executions of tbb::parallel_for / parallel_reduce(functional form) / concurrent_vector::push_back are those of DESIGN.md appendix A; "
                     "containment of the real runtime's behaviour in that grammar is re-validated on every run by trace conformance against the installed oneTBB",
                     "parmcb never uses the iterator returned by push_back and never reads a concurrent_vector inside the parallel_for that fills it (enforced by the shim: exit 2 otherwise)",
                     "ORDER choices are explored up to the stated deviation bound; parallel_reduce outcomes are always complete per call",
                     "TSan happens-before detection on the finest partition (one thread per index)"]
    b = builds()
    c.builds_done()
    conformance(c, tier)
    ex = b["sched_tbb"]
    plan = []
    if tier == "quick":
        plan += [("explore G(0..4) x A2, exact x3, bound 2, direct 2", [["--n", n, "--alpha", "A2", "--bound", 2, "--direct-bound", 2, "--unbounded-dim", 2] for n in range(0, 5)]),
                 ("explore G(0..4) x A2, approx x3, k in {1,2,3}, bound 1", [["--n", n, "--alpha", "A2", "--bound", 1, "--direct-bound", 1, "--ks", "1,2,3"] for n in range(2, 5)]),
                 ("explore G(5) x U, exact x3, bound 1, direct 2", [["--n", 5, "--alpha", "U", "--bound", 1, "--direct-bound", 2]]),
                 ("explore G(4) x A2 with reversed edge orientation, exact + approx k=2, bound 1", [["--n", 4, "--alpha", "A2", "--bound", 1, "--direct-bound", 1, "--orient", 1], ["--n", 4, "--alpha", "A2", "--bound", 1, "--direct-bound", 1, "--orient", 1, "--ks", "2"]]),
                 ("explore G(4) x A2 with reversed edge insertion order, exact + approx k=2, bound 1", [["--n", 4, "--alpha", "A2", "--bound", 1, "--direct-bound", 1, "--eorder", 1], ["--n", 4, "--alpha", "A2", "--bound", 1, "--direct-bound", 1, "--eorder", 1, "--ks", "2"]]),
                 ("explore G(4) x A2 with a positional output iterator, exact + approx k=2, bound 1", [["--n", 4, "--alpha", "A2", "--bound", 1, "--direct-bound", 1, "--outiter", 1], ["--n", 4, "--alpha", "A2", "--bound", 1, "--direct-bound", 1, "--outiter", 1, "--ks", "2"]]),
                 ("explore G(4) x A2 with an exterior weight map (interior property holds decoys), exact x3, bound 1", [["--n", 4, "--alpha", "A2", "--bound", 1, "--direct-bound", 1, "--wmap", 1]]),
                 ("explore G(5) x U, approx x3, k=2, bound 1", [["--n", 5, "--alpha", "U", "--bound", 1, "--direct-bound", 1, "--ks", "2"]]),
                 ("purity probe over G(6) x U, dim >= 4 (default schedule + probe; inputs whose reduce bodies share state get direct exploration at bound 2)",
                  [["--n", 6, "--alpha", "U", "--bound", 0, "--direct-bound", 0, "--min-dim", 4]]),
                 ("G(5) with 5..6 edges x PM2 (all assignments of distinct powers of two: unique optima), exact x3, every reduce outcome",
                  [["--n", 5, "--alpha", "PM2", "--min-m", 5, "--max-m", 6, "--bound", 0, "--direct-bound", 0]]),
                 ("G(4) x A3 plus one more component = a single edge weighing 2^60, exact and approximate k in {1,2}, bound 1",
                  [["--n", 4, "--alpha", "A3", "--plus-heavy-k2", "--bound", 1, "--direct-bound", 1], ["--n", 4, "--alpha", "A3", "--plus-heavy-k2", "--bound", 1, "--direct-bound", 1, "--ks", "1,2"]]),
                 ("symmetric families under 60 renumberings x U (exact) and under 20 x M2 (approximate k=2), every reduce outcome",
                  [["--families", FAMS_SYM, "--relabel", 60, "--alpha", "U", "--bound", 0, "--direct-bound", 0], ["--families", FAMS_SYM, "--relabel", 20, "--alpha", "M2", "--bound", 0, "--direct-bound", 0, "--ks", "2"]]),
                 ("size thresholds: approximate TBB variants k=2 on pseudo-random graphs with roughly 1200 / 1400 non-spanner edges (reductions and parallel_for over more than 1024 elements), every reduce outcome on a 12-block grid",
                  [["--families", "lcg:100:1500:3,lcg:90:1300:4", "--alpha", "R9x1", "--big", "--bound", 0, "--direct-bound", 0, "--ks", "2"]]),
                 ("more than 128 candidate cycles: 400 pseudo-random graphs n=18..24, m=3n x 3 pseudo-random weightings in 1..30, exact TBB variants, every reduce outcome on a 12-block grid, Horton reference",
                  [["--families", ",".join("lcg:%d:%d:%d" % (n, 3 * n, sd) for n in (18, 20, 22, 24) for sd in range(100)), "--alpha", "R30x3", "--big", "--big-above", 30, "--bound", 0, "--direct-bound", 0]]),
                 ("more than 1024 candidate cycles (a reduction range longer than any plausible grain size): K16, K18 and a dense pseudo-random graph n=20, m=150 x 2 pseudo-random weightings in 1..30, exact TBB variants, every reduce outcome on a 12-block grid, Horton reference",
                  [["--families", "K:16,lcg:20:150:1,K:18", "--alpha", "R30x2", "--big", "--big-above", 30, "--bound", 0, "--direct-bound", 0]]),
                 ("non-integer (dyadic) weights: G(4) x D exact and approximate k=2, bound 1; K6, K7, K7 + pendant vertex, wheel:7 x menu Q36x150 (weights in quarters), exact TBB variants, every reduce outcome",
                  [["--n", 4, "--alpha", "D", "--bound", 1, "--direct-bound", 1], ["--n", 4, "--alpha", "D", "--bound", 1, "--direct-bound", 1, "--ks", "2"],
                   ["--families", "K:6,K:7,Kp:7:1,pK:7:1,wheel:7", "--alpha", "Q36x150", "--bound", 0, "--direct-bound", 0, "--wchunks", 8]]),
                 ("dense core + pendant vertices (support vectors with >= |V| entries: the vertex-range reduction of the signed variant, with leaves that find nothing): "
                  "K7/K8 with 1-2 pendant vertices numbered last or first, K7, K8, wheel:7 x menu R3x400, all exact TBB variants, every reduce outcome, default for-schedules",
                  [["--families", "Kp:7:1,pK:7:1,Kp:7:2,Kp:8:1,K:7,K:8,wheel:7", "--alpha", "R3x400", "--bound", 0, "--direct-bound", 0, "--wchunks", 16]])]
    else:
        plan += [
                 ("dense core + pendant vertices: K7/K8/K9 with pendants, K7, K8, wheel:7/8 x menus R3x8000 and R9x8000, exact TBB variants, every reduce outcome",
                  [["--families", "Kp:7:1,pK:7:1,Kp:7:2,pK:7:2,Kp:8:1,pK:8:1,Kp:9:1,K:7,K:8,wheel:7,wheel:8", "--alpha", a, "--bound", 0, "--direct-bound", 0, "--wchunks", 64] for a in ("R3x8000", "R9x8000")]),
                 ("dense core + pendant vertex, K7+1 x R3x2000, signed variant, bound 1 / direct bound 1",
                  [["--families", "Kp:7:1,pK:7:1", "--alpha", "R3x2000", "--bound", 1, "--direct-bound", 1, "--variants", "signed_tbb", "--wchunks", 64]])]
        plan += [("more than 1024 (up to ~5000) candidate cycles: K16, K18, K20, K24 and dense pseudo-random graphs (n=20 m=150, n=30 m=300) x 3 pseudo-random weightings in 1..30, exact TBB variants, every reduce outcome on a 12-block grid, Horton reference",
                  [["--families", "K:16,lcg:20:150:1,K:18,K:20,K:24,lcg:30:300:2", "--alpha", "R30x3", "--big", "--big-above", 30, "--bound", 0, "--direct-bound", 0]])]
        plan += [("G(5) with 5..7 edges x PM2, exact x3, every reduce outcome", [["--n", 5, "--alpha", "PM2", "--min-m", 5, "--max-m", 7, "--bound", 0, "--direct-bound", 0]]),
                 ("symmetric families under 300 renumberings x U, bound 0; under 20 renumberings bound 1",
                  [["--families", FAMS_SYM, "--relabel", 300, "--alpha", "U", "--bound", 0, "--direct-bound", 0], ["--families", FAMS_SYM, "--relabel", 20, "--alpha", "U", "--bound", 1, "--direct-bound", 1]])]
        plan += [("explore G(0..4) x A3, exact x3, bound 2, direct 2", [["--n", n, "--alpha", "A3", "--bound", 2, "--direct-bound", 2, "--unbounded-dim", 2] for n in range(0, 5)]),
                 ("explore G(0..4) x A2, exact x3, bound 3, direct 3", [["--n", n, "--alpha", "A2", "--bound", 3, "--direct-bound", 3, "--unbounded-dim", 2] for n in range(0, 5)]),
                 ("explore G(0..4) x A2, approx x3, k in {1,2,3}, bound 2", [["--n", n, "--alpha", "A2", "--bound", 2, "--direct-bound", 2, "--ks", "1,2,3"] for n in range(2, 5)]),
                 ("explore G(5) x U, exact x3, bound 2, direct 2", [["--n", 5, "--alpha", "U", "--bound", 2, "--direct-bound", 2]]),
                 ("explore G(5) x A2, approx x3, k in {1,2}, bound 1", [["--n", 5, "--alpha", "A2", "--bound", 1, "--direct-bound", 1, "--ks", "1,2"]]),
                 ("explore G(5) x A2, exact x3, bound 1, direct 1", [["--n", 5, "--alpha", "A2", "--bound", 1, "--direct-bound", 1]]),
                 ("explore K6/K7/wheel/prism unit, exact x3, bound 1, direct 2", [["--families", "K:6,K:7,wheel:6,prism:4,petersen,Kb:3:4", "--alpha", "U", "--bound", 1, "--direct-bound", 2]]),
                 ("explore G(6) x U, dim>=4, exact x3, bound 1, direct 1", [["--n", 6, "--alpha", "U", "--bound", 1, "--direct-bound", 1, "--min-dim", 4]]),
                 ("explore G(6) x U, dim>=6, tree variants, direct bound 2", [["--n", 6, "--alpha", "U", "--bound", 0, "--direct-bound", 2, "--variants", "fvs_tbb,iso_tbb", "--min-dim", 6]]),
                 ("purity probe over G(6) x A2 with m <= 10 and G(7) x U with dimension >= 6", [["--n", 7, "--alpha", "U", "--bound", 0, "--direct-bound", 0, "--min-dim", 6]])]
    plan += [("@sched_tbb_cfg_log", "other build configuration of the library: PARMCB_LOGGING on, G(4) x A2, exact x3 bound 1, approx k=2 bound 0", [["--n", 4, "--alpha", "A2", "--bound", 1, "--direct-bound", 1], ["--n", 4, "--alpha", "A2", "--bound", 0, "--direct-bound", 0, "--ks", "2"]]),
             ("@sched_tbb_cfg_noinv", "other build configuration of the library: PARMCB_INVARIANTS_CHECK off, G(4) x A2, exact x3 bound 1, approx k=2 bound 0", [["--n", 4, "--alpha", "A2", "--bound", 1, "--direct-bound", 1], ["--n", 4, "--alpha", "A2", "--bound", 0, "--direct-bound", 0, "--ks", "2"]])]
    for row in plan:
        hname = row[0][1:] if row[0].startswith("@") else "sched_tbb"
        bound, arglists = (row[1], row[2]) if row[0].startswith("@") else (row[0], row[1])
        for args in arglists:
            rem = c.remaining(20)
            r = vlib.run_harness(b[hname], list(args) + ["--seed", vlib.seed(), "--deadline-s", int(rem)])
            c.add_run(r, bound + " :: " + r["args"], None, replay={"harness": hname})
            for k in ("reduce_max_outcomes", "reduce_bodies_found_impure", "inputs_hitting_execution_cap", "inputs_decided_by_direct_mode_only"):
                c.extra[k] = max(c.extra.get(k, 0), r.get(k, 0))
            c.extra["reduce_calls_with_identity_leaf"] = c.extra.get("reduce_calls_with_identity_leaf", 0) + r.get("reduce_calls_with_identity_leaf", 0)
            c.extra["direct_mode_schedules"] = c.extra.get("direct_mode_schedules", 0) + r.get("direct_mode_schedules", 0)
    # race half
    env = {"TSAN_OPTIONS": "halt_on_error=1 exitcode=66 report_signal_unsafe=0"}
    ts = b["sched_tbb_tsan"]
    tplan = [("TSan thread-per-leaf G(0..4) x A2, exact + approx k=2", [["--n", n, "--alpha", "A2"] for n in range(2, 5)] + [["--n", 4, "--alpha", "A2", "--ks", "2"]]),
             ("TSan thread-per-leaf G(5) x U, exact + approx k=2", [["--n", 5, "--alpha", "U"], ["--n", 5, "--alpha", "U", "--ks", "2"]])]
    if tier == "thorough":
        tplan += [("TSan thread-per-leaf G(5) x A2 exact", [["--n", 5, "--alpha", "A2"]]), ("TSan families", [["--families", "K:6,K:7,wheel:6,prism:4,petersen,grid:3:3", "--alpha", "U"]]),
                  ("TSan G(6) x U, dim>=4", [["--n", 6, "--alpha", "U", "--min-dim", 4]])]
    races = 0
    for bound, arglists in tplan:
        for args in arglists:
            r = vlib.run_harness(ts, list(args) + ["--seed", vlib.seed(), "--deadline-s", int(c.remaining(20))], env=env)
            r["states"] = 0; r["transitions"] = 0
            c.add_run(r, bound + " :: " + r["args"], None, replay={"harness": "sched_tbb_tsan"})
            races += r.get("evaluations", 0)
    c.extra["tsan_runs"] = races
    # real-runtime cross-check: the same entry points on the installed oneTBB must land in the model's outcome set (= reference optimum)
    rt = b["exact_realtbb"]
    for args in ([["--n", 4, "--alpha", "A2"], ["--n", 5, "--alpha", "U"]] + ([["--n", 5, "--alpha", "A2"]] if tier == "thorough" else [])):
        r = vlib.run_harness(rt, list(args) + ["--variants", "signed_tbb,fvs_tbb,iso_tbb", "--workers", 4, "--deadline-s", int(c.remaining(20))])
        c.traces_validated += r.get("evaluations", 0)
        c.add_run(r, "real oneTBB cross-check (outcome membership) :: " + r["args"], None, replay={"harness": "exact_realtbb"})
    return c.finish()


def replay(path):
    rp = vlib.load_replay(path)
    b = builds()
    h = (rp.get("replay") or {}).get("harness", "sched_tbb")
    env = dict(os.environ); env["TSAN_OPTIONS"] = "halt_on_error=1 exitcode=66"
    p = subprocess.run([b[h], "--replay-case", rp["case"]] + vlib.replay_opts(rp), stdout=subprocess.PIPE, stderr=subprocess.STDOUT, text=True, env=env)
    print(p.stdout[-3000:])
    if "REPLAY-VIOLATION" in p.stdout or p.returncode == 66 or p.returncode < 0:
        print("VIOLATION property=C03 replay=%s" % path)
        return 1
    return 0
