"""C05 / C06 / C15: approximate algorithms and their spanner (input-space exploration)."""
import subprocess
import vlib

STRUCT = {"wrong-count", "empty-cycle", "foreign-edge", "repeated-edge", "not-simple-cycle", "dependent"}
CLASSES = {
    "C05": STRUCT | {"return-mismatch"},
    "C06": {"ratio-exceeded", "below-optimum", "k1-not-minimum", "k0-not-rejected", "k0-emitted", "no-basis-produced"},
    "C15": {"spanner-vertices", "spanner-map", "spanner-weight", "spanner-partition", "spanner-stretch", "spanner-girth"},
}
RULE = {
    "C05": "every labelled graph of G(n) x every weighting over the alphabet x k x each of approx_mcb_sva_signed/_fvs_trees/_iso_trees; "
           "output validated against the caller's graph descriptors after the call returned; distinct_nontrivial = distinct (graph, weighting, k) with cycle space dimension >= 1",
    "C06": "same enumeration as C05 plus k=0; emitted weight compared with (2k-1) x reference optimum (all simple cycles + GF(2) greedy), equality of sorted "
           "weight vectors for k=1, std::runtime_error and empty output for k=0; distinct_nontrivial = distinct (graph, weighting, k) with dimension >= 1",
    "C15": "every labelled graph of G(n) x every weighting x k: BaseApproxSpannerAlgorithm is constructed and its private spanner, translation map and "
           "dropped-edge list are inspected (partition, weights, stretch by BFS over lighter retained edges, girth > 2k); distinct_nontrivial = distinct (graph, weighting, k) with dimension >= 1",
}


FAMS_SYM = "antiprism:4,antiprism:5,antiprism:6,prism:4,prism:5,prism:6,prism:7,mobius:4,mobius:5,mobius:6,mobius:7,petersen,cube:3,Kb:3:3,wheel:6,torus:3:3"


def lcg_menu(ns, ratios, seeds):
    return ",".join("lcg:%d:%d:%d" % (n, int(n * r), s) for n in ns for r in ratios for s in range(seeds))


def runs(prop, tier):
    ks_q = "1,2,3" if prop != "C06" else "0,1,2,3"
    ks_t = "1,2,3,4,n+1,1000" if prop != "C06" else "0,1,2,3,4,n+1,1000"
    q = [("G(0..4) x A3, k in {%s}" % ks_q, [["--n", n, "--alpha", "A3", "--ks", ks_q] for n in range(0, 5)]),
         ("G(5) x A2, k in {%s}" % ks_q, [["--n", 5, "--alpha", "A2", "--ks", ks_q]]),
         ("blob grammar K=3,T=2 x patterns U, M3, k in {%s}" % ks_q, [["--grammar", "blobs:3:2", "--alpha", a, "--ks", ks_q] for a in ("U", "M3")]),
         ("dense families x U", [["--families", "K:6,K:7,wheel:6,prism:4,petersen,Kb:3:4,grid:3:4,cube:3", "--alpha", "U", "--ks", ks_q]]),
         ("G(5) x {1,100} (extreme weight ratio)", [["--n", 5, "--alpha", "H2", "--ks", ks_q]]),
         ("weights with 26 significant bits: G(4) x B3, G(5) x B2", [["--n", 4, "--alpha", "B3", "--ks", ks_q], ["--n", 5, "--alpha", "B2", "--ks", ks_q]]),
         ("weights spanning 60 binary orders of magnitude: G(4) x A3 and G(5) x A2, each with one more component = a single edge weighing 2^60",
          [["--n", 4, "--alpha", "A3", "--ks", ks_q, "--plus-heavy-k2"], ["--n", 5, "--alpha", "A2", "--ks", ks_q, "--plus-heavy-k2"], ["--n", 5, "--alpha", "H2", "--ks", ks_q, "--plus-heavy-k2", "--min-m", 7]]),
         ("symmetric families under 30 renumberings x U, M2", [["--families", FAMS_SYM, "--relabel", 30, "--alpha", a, "--ks", ks_q] for a in ("U", "M2")]),
         ("G(5) with at most 6 edges x PM2 (every assignment of distinct powers of two) and x PM (1..m), k in {%s}" % ks_q, [["--n", 5, "--alpha", a, "--max-m", 6, "--ks", ks_q] for a in ("PM2", "PM")]),
         ("edge orientation reversed / alternating: G(0..4) x A3, G(5) x A2", [["--n", n, "--alpha", "A3", "--ks", ks_q, "--orient", o] for n in range(2, 5) for o in (1, 2)] + [["--n", 5, "--alpha", "A2", "--ks", ks_q, "--orient", 1]]),
         ("edge insertion order reversed / interleaved: G(4) x A3, G(5) x A2", [["--n", 4, "--alpha", "A3", "--ks", ks_q, "--eorder", o] for o in (1, 2)] + [["--n", 5, "--alpha", "A2", "--ks", ks_q, "--eorder", o] for o in (1, 2)]),
         ("amplified gadgets (parallel composition: 5 copies of the base graph glued at vertices 0 and 1, an edge joining the terminals stays single) over G(4) x {1,1000,2000} in 3 orientations and G(5) with at most 6 edges x {1,1000,2000} in 2 orientations, Horton reference",
          [["--n", 4, "--alpha", "H3", "--amp", 5, "--ks", "2,3", "--orient", o] for o in (0, 1, 2)] + [["--n", 5, "--alpha", "H3", "--amp", 5, "--ks", "2", "--max-m", 6, "--orient", o] for o in (0, 1)]),
         ("positional output iterator (begin() of a pre-sized vector instead of a back_inserter): G(4) x A3, G(5) x A2, blob grammar x M3, k in {%s}" % ks_q,
          [["--n", 4, "--alpha", "A3", "--ks", ks_q, "--outiter", 1], ["--n", 5, "--alpha", "A2", "--ks", ks_q, "--outiter", 1], ["--grammar", "blobs:3:2", "--alpha", "M3", "--ks", ks_q, "--outiter", 1]]),
         ("output iterator whose sink copies what it is assigned (boost::function_output_iterator over a callback taking a const reference): G(4) x A3, G(5) x A2, k in {%s}" % ks_q,
          [["--n", 4, "--alpha", "A3", "--ks", ks_q, "--outiter", 2], ["--n", 5, "--alpha", "A2", "--ks", ks_q, "--outiter", 2]]),
         ("integral weight type (long): G(0..4) x A3, G(5) x {1,100}, amplified gadgets over G(4) x {1,1000,2000}, theta graphs with chords, k in {%s}" % ks_q,
          [["@long", "--n", n, "--alpha", "A3", "--ks", ks_q] for n in range(2, 5)] + [["@long", "--n", 5, "--alpha", "H2", "--ks", ks_q], ["@long", "--n", 4, "--alpha", "H3", "--amp", 5, "--ks", "2,3"],
           ["@long", "--families", "thetac:3:4", "--alpha", "A2H", "--ks", "2,3", "--wchunks", 32]]),
         ("the library compiled as C++17 (language standard of the including translation unit): G(4) x A3, G(5) x A2, k in {%s}" % ks_q,
          [["@cxx17", "--n", 4, "--alpha", "A3", "--ks", ks_q], ["@cxx17", "--n", 5, "--alpha", "A2", "--ks", ks_q]]),
         ("other build configurations of the library (PARMCB_LOGGING on, PARMCB_INVARIANTS_CHECK off): G(4) x A3, G(5) x A2, k in {%s}" % ks_q,
          [[t, "--n", 4, "--alpha", "A3", "--ks", ks_q] for t in ("@log", "@noinv")] + [[t, "--n", 5, "--alpha", "A2", "--ks", ks_q] for t in ("@log", "@noinv")]),
         ("another graph type (vertex property present, edge_weight behind an edge_index property): G(4) x A3, G(5) x A2, k in {%s}" % ks_q,
          [["@altgraph", "--n", 4, "--alpha", "A3", "--ks", ks_q], ["@altgraph", "--n", 5, "--alpha", "A2", "--ks", ks_q]]),
         ("huge k used as infinity (k = 2^31 and k = SIZE_MAX/2), weight types double and long: G(4) x A3, G(5) x A2",
          [["--n", 4, "--alpha", "A3", "--ks", "2147483648,9223372036854775807"], ["@long", "--n", 4, "--alpha", "A3", "--ks", "2147483648,9223372036854775807"], ["@long", "--n", 5, "--alpha", "A2", "--ks", "9223372036854775807"]]),
         ("theta graphs with chords (11 vertices, many non-spanner edges competing for one heavy edge): edge #0 = 1000, every other edge over {1,2}, both orientations",
          [["--families", "thetac:3:4", "--alpha", "A2H", "--ks", "2,3", "--wchunks", 32, "--orient", o] for o in (0, 1)]),
         ("fixed menu: 1200 pseudo-random sparse graphs n=8..20 x 3 pseudo-random weightings in 1..9, and x every one-heavy-edge weighting for n <= 12",
          [["--families", lcg_menu((8, 10, 12, 14, 16, 20), (1.3, 1.6, 2.0), 66), "--alpha", "R9x3", "--ks", ks_q],
           ["--families", lcg_menu((7, 8, 9, 10, 11, 12), (1.3, 1.6, 2.0), 40), "--alpha", "OH", "--ks", ks_q],
           ["--families", lcg_menu((8, 10, 12, 14, 16, 20), (1.3, 1.6, 2.0), 66), "--alpha", "R9x2", "--ks", ks_q, "--orient", 1]]),
         ("large families (up to 169 vertices; dynamic-bitset validator, Horton reference) x patterns U, M3",
          [["--families", "wheel:80,grid:9:9,cube:6,K:13,brick:8:9,subgrid:6:6,torus:6:6,Kb:8:8,grid:13:13", "--alpha", a, "--ks", ks_t] for a in ("U", "M3")])]
    if tier == "quick":
        return q
    return q[2:] + [("G(0..4) x A3, k in {%s}" % ks_t, [["--n", n, "--alpha", "A3", "--ks", ks_t] for n in range(0, 5)]),
            ("G(5) x A2, k in {%s}" % ks_t, [["--n", 5, "--alpha", "A2", "--ks", ks_t]]),
            ("G(5) x A3, k in {%s}" % ks_t, [["--n", 5, "--alpha", "A3", "--ks", ks_t]]),
            ("G(5) with at most 7 edges x PM2 and x PM, k in {%s}" % ks_q, [["--n", 5, "--alpha", a, "--max-m", 7, "--ks", ks_q] for a in ("PM2", "PM")]),
            ("amplified gadgets over G(5) with at most 8 edges x {1,1000,2000}, 5 copies, 3 orientations, k in {2,3}; over G(5) x {1,100}, 4 copies",
             [["--n", 5, "--alpha", "H3", "--amp", 5, "--ks", "2,3", "--max-m", 8, "--orient", o] for o in (0, 1, 2)] + [["--n", 5, "--alpha", "H2", "--amp", 4, "--ks", "2,3", "--orient", o] for o in (0, 1)]),
            ("amplified gadgets with a shared two-edge detour (3 copies glued at the path 0-2-1): base graphs on 6 vertices with at most 7 edges x {1,3,1000}, 3 orientations, reversed edge order, k=2",
             [["--n", 6, "--alpha", "L3", "--amp", 3, "--amp-shared", 3, "--detour-012", "--max-m", 7, "--ks", "2", "--orient", o] for o in (0, 1, 2)] + [["--n", 6, "--alpha", "L3", "--amp", 3, "--amp-shared", 3, "--detour-012", "--max-m", 7, "--ks", "2", "--orient", 1, "--eorder", 1]]),
            ("G(5) x D, k in {%s}" % ks_q, [["--n", 5, "--alpha", "D", "--ks", ks_q]]),
            ("families x A2", [["--families", "wheel:5,wheel:6,prism:3,prism:4,Kb:3:3,cube:3,grid:3:3,petersen,grid:2:5", "--alpha", "A2", "--ks", ks_t]]),
            ("G(6) x U, k in {%s}" % ks_t, [["--n", 6, "--alpha", "U", "--ks", ks_t]]),
            ("theta graphs with chords, larger", [["--families", "thetac:4:4,thetac:3:5,thetac:4:3,thetac:2:4", "--alpha", "A2H", "--ks", "2,3,4", "--wchunks", 64, "--orient", o] for o in (0, 1, 2)]),
            ("G(5) x A3 reversed orientation", [["--n", 5, "--alpha", "A3", "--ks", ks_q, "--orient", 1]]),
            ("G(6) x A2, k in {%s}" % ks_q, [["--n", 6, "--alpha", "A2", "--ks", ks_q]])]


def _build_for(h):
    if h == "approx_altgraph":
        return vlib.build(h, "approx.cpp", flags=vlib.BASE_FLAGS + ["-fno-access-control", "-DVH_GRAPH_ALT"])
    if h in ("approx_cfg_log", "approx_cfg_noinv"):
        return vlib.build(h, "approx.cpp", flags=vlib.BASE_FLAGS + ["-fno-access-control"], cfg=vlib.gen_config(logging=(h == "approx_cfg_log"), invariants=(h != "approx_cfg_noinv")))
    if h == "approx_cxx17":
        return vlib.build(h, "approx.cpp", flags=vlib.CXX17_FLAGS + ["-fno-access-control"])
    if h == "approx_long":
        return vlib.build("approx_long", "approx.cpp", flags=vlib.BASE_FLAGS + ["-fno-access-control", "-DVH_WTYPE=long"])
    return _build()


def _build():
    return vlib.build("approx", "approx.cpp", flags=vlib.BASE_FLAGS + ["-fno-access-control"])


def run(prop, tier):
    c = vlib.Check(prop, tier, "exploration", RULE[prop], "approx")
    c.deadline = 170 if tier == "quick" else 1500
    c.assumptions = ["reference oracle (all simple cycles + GF(2) greedy) is correct and independent of parmcb",
                     "weights integer or dyadic, so all comparisons are exact",
                     "C15 reads private members via -fno-access-control; member names are an interface of this harness (build failure = harness error)"]
    binary = _build()
    binary_long = vlib.build("approx_long", "approx.cpp", flags=vlib.BASE_FLAGS + ["-fno-access-control", "-DVH_WTYPE=long"])
    cfgbin = {"@altgraph": vlib.build("approx_altgraph", "approx.cpp", flags=vlib.BASE_FLAGS + ["-fno-access-control", "-DVH_GRAPH_ALT"]),
              "@log": vlib.build("approx_cfg_log", "approx.cpp", flags=vlib.BASE_FLAGS + ["-fno-access-control"], cfg=vlib.gen_config(logging=True)),
              "@noinv": vlib.build("approx_cfg_noinv", "approx.cpp", flags=vlib.BASE_FLAGS + ["-fno-access-control"], cfg=vlib.gen_config(invariants=False)),
              "@cxx17": vlib.build("approx_cxx17", "approx.cpp", flags=vlib.CXX17_FLAGS + ["-fno-access-control"])}
    c.builds_done()
    skipped = 0
    for bound, arglists in runs(prop, tier):
        for args in arglists:
            is_long = bool(args) and args[0] == "@long"       # row over the integral weight type (harness compiled with -DVH_WTYPE=long)
            tag = args[0] if args and args[0] in cfgbin else None      # row under another build configuration of the library
            if is_long or tag:
                args = args[1:]
            r = vlib.run_harness(cfgbin[tag] if tag else binary_long if is_long else binary, list(args) + ["--props", prop, "--seed", vlib.seed(), "--deadline-s", int(c.remaining())])
            skipped += r.get("c06_skipped_structurally_invalid", 0)
            c.add_run(r, bound + (" [weight type long]" if is_long else "") + ((" [%s]" % tag[1:]) if tag else "") + " :: " + r["args"], CLASSES[prop],
                      replay={"harness": "approx_long" if is_long else {"@log": "approx_cfg_log", "@noinv": "approx_cfg_noinv", "@altgraph": "approx_altgraph", "@cxx17": "approx_cxx17"}.get(tag, "approx")})
            if prop == "C15":
                c.extra["spanners_with_dropped_edges"] = c.extra.get("spanners_with_dropped_edges", 0) + r.get("spanners_with_dropped_edges", 0)
    if prop == "C06":
        c.extra["outputs_skipped_because_structurally_invalid_(C05)"] = skipped
    return c.finish()


def replay(prop, path):
    rp = vlib.load_replay(path)
    p = subprocess.run([_build_for((rp.get("replay") or {}).get("harness", "approx")), "--replay-case", rp["case"], "--props", prop] + vlib.replay_opts(rp, ("--outiter",)), stdout=subprocess.PIPE, text=True)
    print(p.stdout)
    if "REPLAY-VIOLATION" in p.stdout or p.returncode < 0:      # a replay that dies on a signal reproduces a crash
        print("VIOLATION property=%s replay=%s" % (prop, path))
        return 1
    return 0
