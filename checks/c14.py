from checks import _components
def run(tier): return _components.run("C14", tier)
def replay(path): return _components.replay("C14", path)
