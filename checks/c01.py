from checks import _exact
def run(tier): return _exact.run("C01", tier)
def replay(path): return _exact.replay("C01", path)
