"""C08: metamorphic relations (complete on the small universe, fixed menu on large instances) + second independent reference."""
import subprocess
import vlib

V = vlib.VERIF
RULE = ("small universe: every graph of G(n) x weighting; for each base every image under: all n! renumberings (or reverse+rotate), all m! insertion orders for m<=5 (rotations, reversal, transpositions above), "
        "isolated vertex, pendant paths of length 1 and 2 at every vertex, a bridge to a new triangle at every vertex, disjoint union (both orders) with every weighted graph of G(3) x A2, subdivision "
        "of every edge into (1,w-1) and (w/2,w/2), scaling by 2, 4, 1/2; every exact variant (3 sequential + 3 on real oneTBB; 5 MPI entry points at P=2 and 3 TBB variants on the shims) must return "
        "exactly the expected value derived from the base's reference optimum. large menu: named families up to hundreds of vertices x weight patterns {U, 1+i%2, 1+i%3} x renumberings "
        "{identity, reverse, rotate, interleave, shuffle} x insertion orders {identity, reverse, rotate}: all variants agree with each other and with an independent Horton-collection optimum, "
        "and every emitted basis passes a dynamic-bitset structural/independence check. The Horton reference is itself cross-validated against the all-cycles reference on G(<=5) x A2 on every run. "
        "evaluations = algorithm runs; distinct_nontrivial = distinct images")
SMALL_FAMS = "grid:6:6,cube:4,K:8,Kb:4:5,petersen,wheel:9,torus:4:4,brick:4:6,subgrid:3:3,prism:6"
MID_FAMS = "grid:8:8,cube:5,K:10,Kb:6:6,torus:5:5,wheel:12,brick:5:6,subgrid:4:4,subcube:3"
BIG_FAMS = "grid:12:12,cube:6,K:14,Kb:8:8,torus:7:7,brick:8:10,subgrid:6:6,wheel:80,cube:7"
HUGE_FAMS = "grid:20:20,cube:8,K:20"


def lcg_menu(ns, ratios, seeds):
    return ",".join("lcg:%d:%d:%d" % (n, int(n * r), s) for n in ns for r in ratios for s in range(seeds))


def builds():
    return vlib.build_many([
        dict(name="meta_real", src="meta.cpp"),
        dict(name="meta_real_cxx17", src="meta.cpp", flags=vlib.CXX17_FLAGS),
        dict(name="meta_shim", src="meta.cpp", flags=vlib.BASE_FLAGS + ["-DMETA_SHIM"], shim_first=[V + "/shim/vmpi", V + "/shim/vtbb"], libs=("-lboost_timer", "-lboost_serialization", "-lpthread")),
    ])


def run(tier):
    c = vlib.Check("C08", tier, "exploration", RULE, "meta")
    c.deadline = 170 if tier == "quick" else 1700
    c.assumptions = ["Horton reference (own Dijkstra trees + greedy GF(2)) is an independent optimum; cross-validated against the all-cycles reference on the small universe every run",
                     "weights integer or dyadic so every expected value is exact",
                     "large instances are a fixed menu enumerated completely, not a sample; VERIF_SEED only rotates the order"]
    b = builds()
    c.builds_done()
    real, shim = b["meta_real"], b["meta_shim"]
    plan = [(real, "reference cross-validation G(0..5) x A2", [["--mode", "xref", "--n", n, "--alpha", "A2"] for n in range(0, 6)]),
            (real, "small G(0..4) x A2, all transformations, 6 variants", [["--mode", "small", "--n", n, "--alpha", "A2"] for n in range(0, 5)]),
            (real, "small G(4) x A3, all renumberings, menu orders, few unions", [["--mode", "small", "--n", 4, "--alpha", "A3", "--orders", "menu", "--unions", "few"]]),
            (shim, "small G(2..4) x A2 on shims: 5 MPI entry points P=2 + TBB variants, menu transformations", [["--mode", "small", "--n", n, "--alpha", "A2", "--perms", "menu", "--orders", "menu", "--unions", "few",
                                                                                                          "--variants", "signed_mpi,fvs_mpi,fvs_tbb_mpi,iso_mpi,iso_tbb_mpi,signed_tbb,fvs_tbb,iso_tbb"] for n in range(2, 5)]),
            (real, "small G(4) x B3 (weights 2^25 + {1,2,3}: 26 significant bits), menu renumberings/orders, few unions, 6 variants", [["--mode", "small", "--n", 4, "--alpha", "B3", "--perms", "menu", "--orders", "menu", "--unions", "few"]]),
            (real, "small G(4) x A2 with an exterior weight map (interior property holds decoys), menu renumberings/orders, few unions, 6 variants", [["--mode", "small", "--n", 4, "--alpha", "A2", "--perms", "menu", "--orders", "menu", "--unions", "few", "--wmap", 1]]),
            (b["meta_real_cxx17"], "the library compiled as C++17: small G(3..4) x A2, menu renumberings/orders, few unions, 6 variants", [["--mode", "small", "--n", n, "--alpha", "A2", "--perms", "menu", "--orders", "menu", "--unions", "few"] for n in (3, 4)]),
            (real, "large menu (small families), 15 images each", [["--mode", "large", "--families", SMALL_FAMS, "--patterns", "U,M2,M3"]]),
            (real, "large menu (mid families), 3 images each", [["--mode", "large", "--families", MID_FAMS, "--patterns", "U,M3", "--few-images"]]),
            (real, "fixed menu of 960 pseudo-random sparse graphs n=8..24 x 2 pseudo-random weightings, 3 images each (renumbering + insertion order), 6 variants",
             [["--mode", "large", "--families", lcg_menu((8, 10, 12, 14, 16, 18, 20, 24), (1.3, 1.6, 2.0), 40), "--patterns", "R9x2", "--few-images"]])]
    plan += [(real, "fixed menu of 200 denser pseudo-random graphs n=18..24, m=3n (more than 128 candidate cycles) x 2 weightings in 1..30, 3 images each, 6 variants",
              [["--mode", "large", "--families", lcg_menu((18, 20, 22, 24), (3.0,), 50), "--patterns", "R30x2", "--few-images"]])]
    if tier == "thorough":
        plan += [(real, "small G(5) x A2, menu renumberings/orders, few unions", [["--mode", "small", "--n", 5, "--alpha", "A2", "--perms", "menu", "--orders", "menu", "--unions", "few"]]),
                 (real, "small G(4) x A3, all transformations", [["--mode", "small", "--n", 4, "--alpha", "A3"]]),
                 (shim, "small G(4) x A2 on shims, P=3", [["--mode", "small", "--n", 4, "--alpha", "A2", "--perms", "menu", "--orders", "menu", "--unions", "few", "--P", 3]]),
                 (real, "large menu (mid families), 15 images each", [["--mode", "large", "--families", MID_FAMS, "--patterns", "U,M2,M3"]]),
                 (real, "large menu (big families), 3 images each", [["--mode", "large", "--families", BIG_FAMS, "--patterns", "U,M3", "--few-images", "--ref-limit", 3000000]]),
                 (shim, "large menu on shims (MPI P=3)", [["--mode", "large", "--families", SMALL_FAMS, "--patterns", "U,M3", "--few-images", "--P", 3]]),
                 (real, "fixed menu of 4000 pseudo-random graphs n=7..30 x 3 weightings, 15 images each",
                  [["--mode", "large", "--families", lcg_menu((7, 9, 11, 13, 15, 17, 19, 22, 26, 30), (1.2, 1.5, 1.8, 2.2), 100), "--patterns", "R9x3"]]),
                 (real, "large menu (huge: 20x20 grid, Q8, K20), 3 images, variants agree", [["--mode", "large", "--families", HUGE_FAMS, "--patterns", "U", "--few-images", "--ref-limit", 400000, "--workers", 9]])]
    for binary, bound, arglists in plan:
        for args in arglists:
            r = vlib.run_harness(binary, list(args) + ["--seed", vlib.seed(), "--deadline-s", int(c.remaining(30))])
            c.add_run(r, bound + " :: " + r["args"], None, replay={"harness": "meta_shim" if binary == shim else "meta_real_cxx17" if binary == b["meta_real_cxx17"] else "meta_real"})
            c.extra["independent_reference_evaluations"] = c.extra.get("independent_reference_evaluations", 0) + r.get("independent_reference_evaluations", 0)
    return c.finish()


def replay(path):
    rp = vlib.load_replay(path)
    b = builds()
    h = (rp.get("replay") or {}).get("harness", "meta_real")
    p = subprocess.run([b[h], "--replay-case", rp["case"]] + vlib.replay_opts(rp, ("--wmap",)), stdout=subprocess.PIPE, stderr=subprocess.STDOUT, text=True)
    print(p.stdout[-3000:])
    if "REPLAY-VIOLATION" in p.stdout or p.returncode < 0:      # a replay that dies on a signal reproduces a crash
        print("VIOLATION property=C08 replay=%s" % path)
        return 1
    return 0
