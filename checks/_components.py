"""C12 / C13 / C14 / C16: component-level input-space exploration."""
import os
import subprocess
import vlib

FAMS_TIES = "grid:3:3,grid:3:4,grid:4:4,cube:3,cube:4,Kb:3:3,Kb:4:4,petersen,wheel:6,prism:5,torus:3:3,K:6"

FAMS_BIG = "grid:6:6,cube:6,grid:5:8,torus:6:6,Kb:20:20,grid:7:10,cube:7,torus:8:9,grid:4:8,cube:5,subgrid:4:4,brick:6:8"

# highly symmetric graphs (degree ties everywhere): what a vertex-numbering-dependent choice does with them depends on the
# numbering, so each is run under a fixed menu of renumberings (--relabel N: identity + N-1 permutations of a deterministic generator)
FAMS_LONG = "path:400000,tadpole:3:400000,cycle:300000,tadpole:300000:100000"     # recursion depth / linear-size scratch state
FAMS_1K = "grid:33:33,cycle:1100,wheel:1030,Kb:40:40,cube:10"     # more than 1024 vertices / edges (size thresholds)
FAMS_SYM = "antiprism:4,antiprism:5,antiprism:6,antiprism:7,prism:4,prism:5,prism:6,prism:7,prism:8,mobius:4,mobius:5,mobius:6,mobius:7,mobius:8,petersen,cube:3,Kb:3:3,wheel:6,torus:3:3"

SPEC = {
    "C12": dict(comp="sptree",
                rule="every labelled graph of G(n) x every weighting over the alphabet (unit weights = maximal ties) and named tie-heavy families; one SPTree per "
                     "source; oracle = own Floyd-Warshall distances, root-path walk, first-in-path, reversal and sub-path consistency over all ordered vertex pairs. "
                     "evaluations = trees built; distinct_nontrivial = distinct (graph, weighting) with at least one edge",
                quick=[("G(0..5) x U", [["--n", n, "--alpha", "U"] for n in range(0, 6)]),
                       ("G(0..5) x A2", [["--n", n, "--alpha", "A2"] for n in range(0, 6)]),
                       ("G(4) x A3", [["--n", 4, "--alpha", "A3"]]), ("G(5) x A3", [["--n", 5, "--alpha", "A3"]]),
                       ("G(4) x A3 plus one more component = a single edge weighing 2^60", [["--n", 4, "--alpha", "A3", "--plus-heavy-k2"]]),
                       ("weights with 26 significant bits: G(4) x B3, G(5) x B2", [["--n", 4, "--alpha", "B3"], ["--n", 5, "--alpha", "B2"]]),
                       ("pairwise distinct weights: G(4) x PM, G(5) with at most 6 edges x PM (all assignments of 1..m: distinct edges, tied paths) and x PM2 (no ties at all)",
                        [["--n", 4, "--alpha", "PM"], ["--n", 5, "--alpha", "PM", "--max-m", 6], ["--n", 5, "--alpha", "PM2", "--max-m", 6]]),
                       ("reversed / alternating edge orientation: G(4) x A3, G(5) x A2", [["--n", 4, "--alpha", "A3", "--orient", 1], ["--n", 5, "--alpha", "A2", "--orient", 1], ["--n", 5, "--alpha", "A2", "--orient", 2]]),
                       ("blob grammar K=3,T=2 x patterns M2, M3", [["--grammar", "blobs:3:2", "--alpha", "M2"], ["--grammar", "blobs:3:2", "--alpha", "M3"]]),
                       ("edge insertion order reversed / interleaved: G(4) x A3, G(5) x A2", [["--n", 4, "--alpha", "A3", "--eorder", o] for o in (1, 2)] + [["--n", 5, "--alpha", "A2", "--eorder", o] for o in (1, 2)]),
                       ("tie-heavy families x U", [["--families", FAMS_TIES, "--alpha", "U"]]),
                       ("tie-heavy families with 33..64 and more than 64 vertices x U, M3", [["--families", FAMS_BIG, "--alpha", a] for a in ("U", "M3")]),
                       ("symmetric families under 60 renumberings x U", [["--families", FAMS_SYM + ",cube:4,grid:4:4", "--relabel", 60, "--alpha", "U"]]),
                       ("more than 256 vertices: grid:16:17, wheel:260 x U", [["--families", "grid:16:17,wheel:260", "--alpha", "U"]])],
                thorough=[("G(6) x U", [["--n", 6, "--alpha", "U"]]),
                          ("G(5) x D", [["--n", 5, "--alpha", "D"]]),
                          ("G(7) x U", [["--n", 7, "--alpha", "U"]]),
                          ("small families x A2", [["--families", "grid:3:3,cube:3,Kb:3:3,wheel:5,prism:3,prism:4,petersen", "--alpha", "A2"]]),
                          ("G(6) x A2", [["--n", 6, "--alpha", "A2"]])]),
    "C13": dict(comp="fvs",
                rule="every labelled graph of G(n) (no weights involved) and named families; oracle = outputs are distinct vertices, graph minus output is acyclic "
                     "(union-find), nothing emitted for forests. distinct_nontrivial = graphs containing a cycle",
                quick=[("G(0..7)", [["--n", n] for n in range(0, 8)]), ("G(6), G(7) reversed edge orientation", [["--n", 6, "--orient", 1], ["--n", 7, "--orient", 1]]), ("G(6), G(7) reversed / interleaved edge insertion order", [["--n", 6, "--eorder", 1], ["--n", 7, "--eorder", 2]]), ("families", [["--families", FAMS_TIES + ",grid:6:6,cube:5,K:9,wheel:12," + FAMS_BIG]]),
                       ("blob grammar K=3,T=3 (hubs with pendant pieces, up to 30 vertices)", [["--grammar", "blobs:3:3"]]),
                       ("every graph on 9 vertices with at most 6 edges", [["--n", 9, "--sparse", 6]]),
                       ("symmetric families under 500 renumberings", [["--families", FAMS_SYM + ",cube:4,grid:4:4,K:7", "--relabel", 500]]),
                       ("graphs with more than 1024 vertices / edges under 6 renumberings", [["--families", FAMS_1K, "--relabel", 6]]),
                       ("vertex-filtered views of the graph (boost::filtered_graph: vertex indices are not 0..k-1 in enumeration order): G(1..6), every non-empty subset of hidden vertices", [["--n", n, "--filtered", 1] for n in range(1, 7)]),
                       ("very long chains of pendant removals: paths, tadpoles and cycles with 300 000 - 400 000 vertices", [["--families", FAMS_LONG, "--alpha", "M2"]])],
                thorough=[("vertex-filtered views: G(7) under a menu of 13 hidden-vertex subsets (singles, prefixes, alternating, all but the last 3)", [["--n", 7, "--filtered", 1]]), ("G(8) (all 2^28 labelled graphs)", [["--n", 8]]), ("every graph on 9 / 10 / 12 vertices with at most 8 / 8 / 6 edges", [["--n", 9, "--sparse", 8], ["--n", 10, "--sparse", 8], ["--n", 12, "--sparse", 6]]), ("blob grammar K=4,T=3", [["--grammar", "blobs:4:3"]])]),
    "C14": dict(comp="collections",
                rule="every labelled graph of G(n) x every weighting: Horton, FVS and ISO builders are called directly; every candidate is checked to be two root "
                     "paths meeting only at the root plus a non-tree edge with the recorded weight; FVS and ISO (root, edge) pairs must be Horton pairs; greedy by "
                     "weight with GF(2) independence over each collection must reach the dimension and the reference optimum. evaluations = builder calls; "
                     "distinct_nontrivial = distinct (graph, weighting) with cycle space dimension >= 1",
                quick=[("graphs with 256..320 vertices (beyond the 64-bit edge masks; internal size thresholds of the builders): pseudo-random sparse graphs, 17x17 grid, 300-cycle, wheel with 300 spokes x patterns M3 and U, FVS and ISO builders: every candidate validated as an edge set, greedy over the collection against the independent Horton reference", [["--comp", "collections-big", "--families", "lcg:300:420:1,lcg:320:440:2,grid:17:17,lcg:260:600:3,cycle:300,wheel:300", "--alpha", a] for a in ("M3", "U")]), ("degree threshold of the tree representation: stars with 65 540 - 131 080 leaves plus 3 - 40 chords {i, i+65536} (a tree root with more than 65535 children), unit weights, FVS builder, optimum 3 per chord by construction", [["--comp", "collections-hub", "--families", "hub:300:0,hub:65540:3,hub:70000:40,hub:131080:5", "--alpha", "U"]]), ("G(0..4) x A3", [["--n", n, "--alpha", "A3"] for n in range(0, 5)]), ("G(5) x A2", [["--n", 5, "--alpha", "A2"]]),
                       ("G(4) x A3 plus one more component = a single edge weighing 2^60", [["--n", 4, "--alpha", "A3", "--plus-heavy-k2"]]),
                       ("weights with 26 significant bits: G(4) x B3, G(5) x B2", [["--n", 4, "--alpha", "B3"], ["--n", 5, "--alpha", "B2"]]),
                       ("pairwise distinct weights: G(4) x PM, G(5) with at most 6 edges x PM (all assignments of 1..m: distinct edges, tied paths) and x PM2 (no ties at all)",
                        [["--n", 4, "--alpha", "PM"], ["--n", 5, "--alpha", "PM", "--max-m", 6], ["--n", 5, "--alpha", "PM2", "--max-m", 6]]),
                       ("G(5) x U", [["--n", 5, "--alpha", "U"]]), ("G(5) x A3", [["--n", 5, "--alpha", "A3"]]),
                       ("reversed / alternating edge orientation: G(4) x A3, G(5) x A2", [["--n", 4, "--alpha", "A3", "--orient", 1], ["--n", 5, "--alpha", "A2", "--orient", 1], ["--n", 5, "--alpha", "A2", "--orient", 2]]),
                       ("blob grammar K=3,T=2 x patterns M2, M3", [["--grammar", "blobs:3:2", "--alpha", "M2"], ["--grammar", "blobs:3:2", "--alpha", "M3"]]),
                       ("edge insertion order reversed / interleaved: G(4) x A3, G(5) x A2", [["--n", 4, "--alpha", "A3", "--eorder", o] for o in (1, 2)] + [["--n", 5, "--alpha", "A2", "--eorder", o] for o in (1, 2)]),
                       ("tie-heavy families x U", [["--families", "grid:3:3,grid:3:4,cube:3,Kb:3:3,petersen,wheel:6,prism:5,torus:3:3,K:6", "--alpha", "U"]]),
                       ("symmetric families (antiprisms, prisms, Moebius ladders, ...) under 400 renumberings x U and under 100 renumberings x M2",
                        [["--families", FAMS_SYM, "--relabel", 400, "--alpha", "U"], ["--families", FAMS_SYM, "--relabel", 100, "--alpha", "M2"]])],
                thorough=[ ("G(6) x U", [["--n", 6, "--alpha", "U"]]), ("G(5) x D", [["--n", 5, "--alpha", "D"]]),
                          ("small families x A2", [["--families", "grid:3:3,cube:3,Kb:3:3,wheel:5,prism:3,prism:4,petersen", "--alpha", "A2"]]),
                          ("G(6) x A2, m <= 12", [["--n", 6, "--alpha", "A2", "--max-m", 12]]),
                          ("G(7) x U", [["--n", 7, "--alpha", "U"]])]),
    "C16": dict(comp="forest",
                rule="every labelled graph of G(n), and for n <= 4 (thorough: n <= 5 with m <= 7) every edge insertion order; each index is judged as constructed, copy-constructed, assigned over another graph's index and self-assigned; oracle = mutually inverse bijections onto 0..m-1, "
                     "component count and dimension by union-find, is_on_forest iff index >= dimension, forest edges acyclic and n-c many. "
                     "distinct_nontrivial = distinct (graph, insertion order) with at least one edge",
                quick=[("G(0..7)", [["--n", n] for n in range(0, 8)]), ("G(6) reversed / alternating, G(7) alternating edge orientation", [["--n", 6, "--orient", 1], ["--n", 6, "--orient", 2], ["--n", 7, "--orient", 2]]), ("G(0..4) x all edge insertion orders", [["--n", n, "--edge-orders"] for n in range(0, 5)]),
                       ("families", [["--families", FAMS_TIES + ",grid:6:6,cube:5,K:9," + FAMS_BIG]]), ("blob grammar K=3,T=3 (many components, isolated vertices)", [["--grammar", "blobs:3:3"]]),
                       ("every graph on 10 / 12 vertices with at most 5 / 4 edges (n > m + 2, isolated vertices)", [["--n", 10, "--sparse", 5], ["--n", 12, "--sparse", 4]]),
                       ("symmetric families under 200 renumberings", [["--families", FAMS_SYM, "--relabel", 200]]),
                       ("graphs with more than 1024 vertices / edges under 6 renumberings", [["--families", FAMS_1K, "--relabel", 6]])],
                thorough=[("G(8) (all 2^28 labelled graphs)", [["--n", 8]]), ("every graph on 10 / 14 vertices with at most 7 / 5 edges (sparse, many components and isolated vertices)", [["--n", 10, "--sparse", 7], ["--n", 14, "--sparse", 5]]), ("G(5), m <= 7, all edge insertion orders", [["--n", 5, "--edge-orders", "--max-m", 7]])]),
}


def _build():
    return vlib.build("components", "components.cpp")


def run(prop, tier):
    sp = SPEC[prop]
    c = vlib.Check(prop, tier, "exploration", sp["rule"], "components")
    c.deadline = 170 if tier == "quick" else 1500
    c.assumptions = ["oracles (Floyd-Warshall, union-find, all-simple-cycles reference) are independent of parmcb and exact on integer/dyadic weights"]
    binary = _build()
    cfgbin = {"@log": vlib.build("components_cfg_log", "components.cpp", cfg=vlib.gen_config(logging=True)),
              "@noinv": vlib.build("components_cfg_noinv", "components.cpp", cfg=vlib.gen_config(invariants=False)),
              "@ulong": vlib.build("components_ulong", "components.cpp", flags=vlib.BASE_FLAGS + ["-DVH_WTYPE=unsigned long"]),
              "@cxx17": vlib.build("components_cxx17", "components.cpp", flags=vlib.CXX17_FLAGS)}
    c.builds_done()
    weighted = sp["comp"] in ("sptree", "collections")
    plan = sp["quick"] + [("other build configurations of the library (PARMCB_LOGGING on, PARMCB_INVARIANTS_CHECK off): G(4), G(5)",
                           [[t, "--n", n] + (["--alpha", "A2"] if weighted else []) for t in ("@log", "@noinv") for n in (4, 5)]),
                          ("the library compiled as C++17 (language standard of the including translation unit): G(4), G(5)",
                           [["@cxx17", "--n", n] + (["--alpha", "A2"] if weighted else []) for n in (4, 5)])] + \
        ([("unsigned integral weight type (unsigned long): G(4) x A3, G(5) x A2, tie-heavy families x U", [["@ulong", "--n", 4, "--alpha", "A3"], ["@ulong", "--n", 5, "--alpha", "A2"], ["@ulong", "--families", FAMS_TIES, "--alpha", "U"]])] if weighted else []) + \
        (sp["thorough"] if tier == "thorough" else [])
    for bound, arglists in plan:
        for args in arglists:
            tag = args[0] if args and str(args[0]).startswith("@") else None
            if tag:
                args = args[1:]
            r = vlib.run_harness(cfgbin[tag] if tag else binary, ([] if "--comp" in args else ["--comp", sp["comp"]]) + list(args) + ["--seed", vlib.seed(), "--deadline-s", int(c.remaining())])
            c.add_run(r, bound + ((" [%s]" % tag[1:]) if tag else "") + " :: " + r["args"], None, replay={"harness": {"@log": "components_cfg_log", "@noinv": "components_cfg_noinv", "@ulong": "components_ulong", "@cxx17": "components_cxx17"}.get(tag, "components")})
    return c.finish()


def replay(prop, path):
    rp = vlib.load_replay(path)
    case = rp["case"]
    if len(case) > 100000:      # longer than one argv entry may be
        os.makedirs(os.path.join(vlib.BUILD, "out"), exist_ok=True)
        fn = os.path.join(vlib.BUILD, "out", "replay_case_%d.txt" % os.getpid())
        open(fn, "w").write(case); case = "@file:" + fn
    h = (rp.get("replay") or {}).get("harness", "components")
    binary = {"components_cfg_log": lambda: vlib.build(h, "components.cpp", cfg=vlib.gen_config(logging=True)),
              "components_cfg_noinv": lambda: vlib.build(h, "components.cpp", cfg=vlib.gen_config(invariants=False)),
              "components_ulong": lambda: vlib.build(h, "components.cpp", flags=vlib.BASE_FLAGS + ["-DVH_WTYPE=unsigned long"]),
              "components_cxx17": lambda: vlib.build(h, "components.cpp", flags=vlib.CXX17_FLAGS)}.get(h, _build)()
    p = subprocess.run([binary, "--replay-case", case], stdout=subprocess.PIPE, text=True)
    print(p.stdout)
    if "REPLAY-VIOLATION" in p.stdout or p.returncode < 0:      # a replay that dies on a signal reproduces a crash
        print("VIOLATION property=%s replay=%s" % (prop, path))
        return 1
    return 0
