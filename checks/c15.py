from checks import _approx
def run(tier): return _approx.run("C15", tier)
def replay(path): return _approx.replay("C15", path)
