"""C19: every public header alone, and every pair of headers in two translation units, in three configurations.
The space is a finite family of generated programs, enumerated completely; the oracle is compiler / linker exit status."""
import itertools
import os
import subprocess
import time
from concurrent.futures import ThreadPoolExecutor

import vlib

MPI_INC = ["-I/usr/lib/x86_64-linux-gnu/openmpi/include", "-I/usr/lib/x86_64-linux-gnu/openmpi/include/openmpi"]
RULE = ("for each configuration {TBB+MPI, TBB only, MPI only (TBB headers poisoned), neither (TBB and Boost.MPI headers poisoned with #error)} and each header H under include/parmcb meaningful in it: "
        "TU '#include <parmcb/H>' compiled alone (g++ -std=c++14 -c); then every unordered pair {H1,H2} incl. H1=H2 linked from two TUs plus main (quick: pairs (H,H) and pairs "
        "with the umbrella headers); and for every header with a public entry point a USE program (harness/use_header.cpp): that header is the only parmcb include, what it offers is instantiated, linked and run on a small graph. evaluations = compiles + links + runs; distinct_nontrivial = distinct programs (single-header TUs + two-TU programs)")


# header -> section of harness/use_header.cpp that instantiates and runs what the header offers, with that header as the
# only parmcb include of the translation unit. Headers not listed (config-like or pure implementation details whose
# entry points are covered through the listed ones) are covered by the compile-alone and pair-link programs only.
USE = {
    "parmcb_sva_signed.hpp": "SIGNED", "parmcb_sva_trees.hpp": "TREES", "parmcb_sva_signed_tbb.hpp": "SIGNED_TBB",
    "parmcb_approx_sva_signed.hpp": "APPROX_SIGNED", "parmcb_approx_sva_signed_tbb.hpp": "APPROX_SIGNED_TBB",
    "parmcb_approx_sva_trees.hpp": "APPROX_TREES", "parmcb_approx_sva_trees_tbb.hpp": "APPROX_TREES_TBB",
    "parmcb.hpp": "UMBRELLA", "mpi/parmcb_sva_signed.hpp": "MPI_SIGNED", "mpi/parmcb_sva_trees.hpp": "MPI_TREES", "mpi/parmcb.hpp": "MPI_UMBRELLA",
    "forestindex.hpp": "FORESTINDEX", "spvecgf2.hpp": "SPVECGF2", "spvecfp.hpp": "SPVECFP", "fp.hpp": "FP", "util.hpp": "UTIL",
    "sptrees.hpp": "SPTREES", "detail/fvs.hpp": "FVS", "detail/cycles.hpp": "CYCLES", "detail/spanning_forest.hpp": "SPANNING_FOREST",
}


def headers():
    root = os.path.join(vlib.REPO, "include", "parmcb")
    out = []
    for d, _, fs in os.walk(root):
        for f in fs:
            if f.endswith(".hpp"):
                out.append(os.path.relpath(os.path.join(d, f), root))
    return sorted(out)


def meaningful(h, tbb, mpi):
    if h.startswith("mpi/"):
        # the signed MPI variant uses TBB containers directly (the umbrella leaves it out without TBB); the rest of the MPI layer works without TBB
        return mpi and (tbb or h != "mpi/parmcb_sva_signed.hpp")
    if h.endswith("_tbb.hpp"):
        return tbb
    return True


def run(tier):
    c = vlib.Check("C19", tier, "exploration", RULE, "headers")
    c.assumptions = ["toolchain g++ 12 -std=c++14 with Boost 1.83, oneTBB 2021.8, OpenMPI; 'neither' configuration simulated by poisoning <tbb/*.h> and <boost/mpi/*.hpp> with #error"]
    hs = headers()
    work = os.path.join(vlib.BUILD, "c19")
    os.makedirs(work, exist_ok=True)
    configs = [("tbb+mpi", True, True), ("tbb", True, False), ("mpi", False, True), ("none", False, False)]
    jobs = []      # (cfgname, header, src, obj, cmd)
    for name, tbb, mpi in configs:
        cfgdir = vlib.gen_config(tbb=tbb, mpi=mpi)
        inc = []
        if not tbb:
            inc += ["-I", os.path.join(vlib.VERIF, "shim", "no_tbb")]
        if not mpi:
            inc += ["-I", os.path.join(vlib.VERIF, "shim", "no_mpi")]
        inc += ["-I", cfgdir, "-I", os.path.join(vlib.REPO, "include")] + (MPI_INC if mpi else [])
        for h in hs:
            if not meaningful(h, tbb, mpi):
                continue
            base = os.path.join(work, name + "__" + h.replace("/", "_").replace(".hpp", ""))
            for k in ("a", "b"):
                open(base + "_" + k + ".cpp", "w").write("#include <parmcb/%s>\n" % h)
            cmd = ["ccache", "g++", "-std=c++14", "-O0", "-w"] + inc + ["-c"]
            jobs.append((name, h, base, cmd))
    main_src = os.path.join(work, "main.cpp")
    open(main_src, "w").write("int main() { return 0; }\n")
    subprocess.run(["g++", "-c", main_src, "-o", os.path.join(work, "main.o")], check=True)
    env = vlib._ccache_env()

    def compile_one(job):
        name, h, base, cmd = job
        res = []
        for k in ("a", "b"):
            p = subprocess.run(cmd + [base + "_" + k + ".cpp", "-o", base + "_" + k + ".o"], env=env, stdout=subprocess.PIPE, stderr=subprocess.STDOUT, text=True)
            res.append((p.returncode, p.stdout))
            if p.returncode != 0:
                break
        return job, res

    compiled = {}
    nprog = 0
    neval = 0
    with ThreadPoolExecutor(max_workers=vlib.NPROC) as ex:
        for job, res in ex.map(compile_one, jobs):
            name, h, base, _ = job
            nprog += 1
            neval += len(res)
            if res[0][0] != 0:
                first = [l for l in res[0][1].splitlines() if "error" in l][:2]
                c.violations.append({"site": h, "class": "not-self-contained", "case": "config=%s;header=%s" % (name, h),
                                     "msg": "'#include <parmcb/%s>' alone does not compile in configuration %s: %s" % (h, name, " | ".join(first))})
            else:
                compiled[(name, h)] = base
    # link pairs
    umbrella = {"parmcb.hpp", "mpi/parmcb.hpp"}
    links = []
    for name, _, _ in configs:
        hh = [h for (n, h) in compiled if n == name]
        for h1, h2 in itertools.combinations_with_replacement(sorted(hh), 2):
            if tier == "quick" and not (h1 == h2 or h1 in umbrella or h2 in umbrella):
                continue
            links.append((name, h1, h2))

    def link_one(l):
        name, h1, h2 = l
        out = os.path.join(work, "link_%d_%d" % (os.getpid(), abs(hash(l)) % 10**9))
        libs = ["-lboost_timer", "-lboost_serialization", "-lpthread"] + (["-ltbb"] if name in ("tbb+mpi", "tbb") else [])
        if name in ("tbb+mpi", "mpi"):
            libs += ["-lboost_mpi", "-L/usr/lib/x86_64-linux-gnu/openmpi/lib", "-lmpi_cxx", "-lmpi"]
        p = subprocess.run(["g++", compiled[(name, h1)] + "_a.o", compiled[(name, h2)] + "_b.o", os.path.join(work, "main.o"), "-o", out] + libs,
                           stdout=subprocess.PIPE, stderr=subprocess.STDOUT, text=True)
        if os.path.exists(out):
            os.unlink(out)
        return l, p.returncode, p.stdout

    bad_headers = {}
    with ThreadPoolExecutor(max_workers=vlib.NPROC) as ex:
        for l, rc, outp in ex.map(link_one, links):
            nprog += 1
            neval += 1
            if rc != 0:
                name, h1, h2 = l
                syms = sorted(set(x.split("multiple definition of ")[1].split(";")[0].strip("`'‘’ ") for x in outp.splitlines() if "multiple definition of" in x))
                c.violations.append({"site": "%s + %s" % (h1, h2), "class": "does-not-link", "case": "config=%s;tu1=%s;tu2=%s" % (name, h1, h2),
                                     "msg": "two translation units including <parmcb/%s> and <parmcb/%s> do not link: %s" % (h1, h2, "; ".join(syms[:4]) or outp[-300:])})
    # "usable" half: one program per listed header, compiled with that header as the only parmcb include, linked and run
    uses = []
    for name, tbb, mpi in configs:
        cfgdir = vlib.gen_config(tbb=tbb, mpi=mpi)
        inc = []
        if not tbb:
            inc += ["-I", os.path.join(vlib.VERIF, "shim", "no_tbb")]
        if not mpi:
            inc += ["-I", os.path.join(vlib.VERIF, "shim", "no_mpi")]
        inc += ["-I", cfgdir, "-I", os.path.join(vlib.REPO, "include")] + (MPI_INC if mpi else [])
        for h in hs:
            if h in USE and meaningful(h, tbb, mpi):
                uses.append((name, h, inc))

    def use_one(u):
        name, h, inc = u
        out = os.path.join(work, "use_%s__%s" % (name, h.replace("/", "_").replace(".hpp", "")))
        libs = ["-lboost_timer", "-lboost_serialization", "-lpthread"] + (["-ltbb"] if name in ("tbb+mpi", "tbb") else [])
        if name in ("tbb+mpi", "mpi"):
            libs += ["-lboost_mpi", "-L/usr/lib/x86_64-linux-gnu/openmpi/lib", "-lmpi_cxx", "-lmpi"]
        cmd = ["ccache", "g++", "-std=c++14", "-O0", "-w", "-DUSE_" + USE[h], "-DHDR=<parmcb/%s>" % h] + inc + ["-c", os.path.join(vlib.VERIF, "harness", "use_header.cpp"), "-o", out + ".o"]
        p = subprocess.run(cmd, env=env, stdout=subprocess.PIPE, stderr=subprocess.STDOUT, text=True)
        if p.returncode != 0:
            return u, "does-not-instantiate", " | ".join([l for l in p.stdout.splitlines() if "error" in l][:2])
        p = subprocess.run(["g++", out + ".o", "-o", out] + libs, stdout=subprocess.PIPE, stderr=subprocess.STDOUT, text=True)
        if p.returncode != 0:
            return u, "does-not-link", p.stdout[-300:]
        try:
            p = subprocess.run([out], stdout=subprocess.PIPE, stderr=subprocess.STDOUT, text=True, timeout=60,
                               env=dict(os.environ, OMPI_ALLOW_RUN_AS_ROOT="1", OMPI_ALLOW_RUN_AS_ROOT_CONFIRM="1", OMPI_MCA_rmaps_base_oversubscribe="1"))
        except subprocess.TimeoutExpired:
            return u, "use-program-hangs", "no termination within 60 s"
        finally:
            if os.path.exists(out):
                os.unlink(out)
        if p.returncode != 0 or "USE-OK" not in p.stdout:
            return u, "use-program-fails", "exit %d: %s" % (p.returncode, p.stdout[-300:])
        return u, None, ""

    with ThreadPoolExecutor(max_workers=vlib.NPROC) as ex:
        for (name, h, _), cls, msg in ex.map(use_one, uses):
            nprog += 1
            neval += 3
            if cls:
                c.violations.append({"site": h, "class": cls, "case": "config=%s;use=%s" % (name, h),
                                     "msg": "a program whose only parmcb include is <parmcb/%s> and which uses what the header offers: %s" % (h, msg)})
    c.evaluations = neval
    c.nontrivial = nprog
    c.programs = nprog
    c.samples = ["config=tbb+mpi: a.cpp='#include <parmcb/util.hpp>' b.cpp='#include <parmcb/parmcb.hpp>' main.cpp -> link",
                 "config=none: '#include <parmcb/sptrees.hpp>' compiled alone with <tbb/*.h> poisoned"]
    c.bounds.append({"bound": "headers=%d configs=4 (tbb+mpi, tbb, mpi, none) tier=%s" % (len(hs), tier), "single_header_TUs": len(jobs), "two_TU_programs": len(links), "use_programs": len(uses), "complete": True})
    c.total_reported = len(c.violations)
    return c.finish()


def replay(path):
    rp = vlib.load_replay(path)
    print("replay of C19 = re-running the check (program family is regenerated from the tree): case %s" % rp["case"])
    return run("quick")
