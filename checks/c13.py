from checks import _components
def run(tier): return _components.run("C13", tier)
def replay(path): return _components.replay("C13", path)
