"""C09: exact variants on inexact (decimal) double weights; oracle in exact 128-bit fixed-point arithmetic."""
import subprocess
import vlib

SHIM = vlib.VERIF + "/shim/vtbb"
RULE = ("every labelled graph of G(n) (optionally restricted by edge count / presence of a long cycle) x every weighting over a decimal alphabet (F={0.1,0.2,0.3}, F4=F+{0.7}) whose sums round "
        "differently in different orders x the six exact variants (TBB ones on the deterministic default schedule of the vtbb shim); each double is converted exactly to 128-bit fixed point; "
        "output must be a valid basis (C01 oracle), the returned value within 1e-9 relative of the exact weight of the emitted cycles, and that within 1e-9 relative of the exact optimum "
        "(all simple cycles + GF(2) greedy over exact values). distinct_nontrivial = distinct (graph, weighting) with cycle space dimension >= 1")


def _build():
    return vlib.build("inexact", "inexact.cpp", shim_first=[SHIM], libs=("-lboost_timer", "-lpthread"))


def run(tier):
    c = vlib.Check("C09", tier, "exploration", RULE, "inexact")
    c.deadline = 170 if tier == "quick" else 1700
    c.assumptions = ["the property's domain is a continuum; the check covers decimal alphabets chosen to maximise rounding-order disagreements, not all doubles in [1e-3,1e3]",
                     "exact oracle: doubles in [2^-10, 2^10] converted exactly to fixed point with scale 2^63"]
    b = _build()
    c.builds_done()
    plan = [("G(0..4) x F", [["--n", n, "--alpha", "F"] for n in range(0, 5)]),
            ("G(6) x F, m <= 6, containing a 6-cycle (all labelled hexagons), default and reversed edge orientation", [["--n", 6, "--alpha", "F", "--max-m", 6, "--need-cycle-len", 6], ["--n", 6, "--alpha", "F", "--max-m", 6, "--need-cycle-len", 6, "--orient", 1]]),
            ("near ties at the small end of the range (N3 = {0.001, 0.002, 0.002+4e-10}, N4 = N3 + {0.003+8e-10}: routes differ by 4e-10 absolute = 1e-7 relative, a hundred times the tolerance): G(0..4) x N3, G(4) x N4 in three edge orientations, G(5) x N3 with at most 6 edges",
             [["--n", n, "--alpha", "N3"] for n in range(2, 5)] + [["--n", 4, "--alpha", "N4", "--orient", o] for o in (0, 1, 2)] + [["--n", 5, "--alpha", "N3", "--max-m", 6]]),
            ("G(4) x F reversed / alternating orientation", [["--n", 4, "--alpha", "F", "--orient", 1], ["--n", 4, "--alpha", "F", "--orient", 2]]),
            ("G(5) x F", [["--n", 5, "--alpha", "F"]]),
            ("dense graphs (support vectors with >= |V| entries) K6, K7, K8, K6/K7 + pendant vertex, wheels, K3,4 x menu T97x150 (150 pseudo-random weightings in 0.1..9.7), signed and FVS variants, sequential and TBB (the ISO variants are excluded here: their recorded finding is identified input by input on the G(n) x F rows)",
             [["--families", "K:6,K:7,K:8,Kp:6:1,Kp:7:1,wheel:6,wheel:7,wheel:8,Kb:3:4", "--alpha", "T97x150", "--variants", "signed,signed_tbb,fvs,fvs_tbb"]]),
            ("G(6) x F, m <= 7, containing a cycle of >= 5 edges, sequential signed+fvs variants", [["--n", 6, "--alpha", "F", "--max-m", 7, "--need-cycle-len", 5, "--variants", "signed,fvs"]])]
    if tier == "thorough":
        plan += [("G(5) x N3 (near ties at the small end of the range)", [["--n", 5, "--alpha", "N3"]]), ("G(4) x F4", [["--n", 4, "--alpha", "F4"]]),
                 ("G(6) x F, m <= 7, containing a cycle of >= 5 edges, TBB signed+fvs variants", [["--n", 6, "--alpha", "F", "--max-m", 7, "--need-cycle-len", 5, "--variants", "signed_tbb,fvs_tbb"]]),
                 ("G(6) x F, m <= 8, containing a cycle of >= 5 edges", [["--n", 6, "--alpha", "F", "--max-m", 8, "--need-cycle-len", 5]]),
                 ("G(5) x F4", [["--n", 5, "--alpha", "F4"]])]
    for bound, arglists in plan:
        for args in arglists:
            r = vlib.run_harness(b, list(args) + ["--seed", vlib.seed(), "--deadline-s", int(c.remaining(20))])
            c.add_run(r, bound + " :: " + r["args"], None, replay={"harness": "inexact"})
    return c.finish()


def replay(path):
    rp = vlib.load_replay(path)
    p = subprocess.run([_build(), "--replay-case", rp["case"]], stdout=subprocess.PIPE, text=True)
    print(p.stdout)
    if "REPLAY-VIOLATION" in p.stdout or p.returncode < 0:      # a replay that dies on a signal reproduces a crash
        print("VIOLATION property=C09 replay=%s" % path)
        return 1
    return 0
