from checks import _components
def run(tier): return _components.run("C16", tier)
def replay(path): return _components.replay("C16", path)
