from checks import _approx
def run(tier): return _approx.run("C06", tier)
def replay(path): return _approx.replay("C06", path)
