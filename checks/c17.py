from checks import _spvec
def run(tier): return _spvec.run17(tier)
def replay(path): return _spvec.replay("C17", path)
