"""C20: the concurrency knob, on the real oneTBB: all call sequences up to a depth against the automaton 'last value wins',
and every --parallel=true option combination of the two demos sampled right before the library call."""
import os
import subprocess
import vlib

LIBS = ("-lboost_timer", "-lboost_program_options", "-lboost_thread", "-ltbb", "-lpthread")
RULE = ("library: every sequence of 1..L calls set_global_tbb_concurrency(n), n in {1,2,3,5,16,hw+1,2hw+9} (hw = number of hardware threads TBB reports; a limit above the machine is legal), each call issued from one of three call sites (two translation units on the main thread - the header's inline function is expanded in both - and a fresh thread that ends right after the call) and with the number held as std::size_t, int or unsigned, each sequence in a fresh process; after every call "
        "tbb::global_control::active_value(max_allowed_parallelism) must equal n (a parallel_for runs between calls so the scheduler is live); after the sequence a library call "
        "(mcb_sva_signed_tbb on K4) must still see the last value. demos: mcb-dimacs.cpp and approx-mcb-dimacs.cpp run in-process (main renamed) for every combination of "
        "algorithm options {default, fvstrees, isotrees, --signed=false alone, all three false, signed+fvstrees} x verbose x printcycles x cores in {1,2,3} (x k in {2,3}) with --parallel=true; active_value is sampled when the demo prints its 'Using ..._TBB' line. "
        "states = automaton states visited (prefixes of sequences / option combinations), transitions = calls observed")

K4 = "c K4 mixed weights\np edge 4 6\ne 1 2 1\ne 1 3 2\ne 1 4 1\ne 2 3 1\ne 2 4 3\ne 3 4 1\n"


def builds():
    src = os.path.join(vlib.REPO, "src")
    return vlib.build_many([
        dict(name="knob_lib", src="knob.cpp", libs=LIBS, extra_srcs=["knob_tu2.cpp"]),
        dict(name="knob_demo_mcb", src="knob.cpp", flags=vlib.BASE_FLAGS + ['-DKNOB_DEMO="%s/mcb-dimacs.cpp"' % src, '-DKNOB_DEMO_NAME="mcb-dimacs"'], libs=LIBS),
        dict(name="knob_demo_approx", src="knob.cpp", flags=vlib.BASE_FLAGS + ['-DKNOB_DEMO="%s/approx-mcb-dimacs.cpp"' % src, '-DKNOB_DEMO_NAME="approx-mcb-dimacs"'], libs=LIBS),
    ])


def run(tier):
    c = vlib.Check("C20", tier, "model_checking", RULE, "knob")
    c.assumptions = ["installed oneTBB 2021.8; active_value(max_allowed_parallelism) is the authoritative observation of the limit",
                     "the demo prints its 'Using ..._TBB' line immediately before the library call (sampling seam; demo source is compiled unmodified with main renamed)"]
    b = builds()
    c.builds_done()
    f = os.path.join(vlib.BUILD, "k4.dimacs")
    open(f, "w").write(K4)
    # oversubscribed limits are slow to exercise (each call is followed by a parallel_for on the real runtime): sequences of 3 calls use the five
    # values up to 16, sequences of up to 2 calls all seven values
    for args in ([["--len", 2, "--nv", 7]] if tier == "quick" else [["--len", 3, "--nv", 5], ["--len", 2, "--nv", 7]]):
        r = vlib.run_harness(b["knob_lib"], args)
        c.add_run(r, "library call sequences :: " + r["args"], None, replay={"harness": "knob_lib"})
    r = vlib.run_harness(b["knob_demo_mcb"], ["--file", f])
    c.add_run(r, "mcb-dimacs option matrix :: " + r["args"], None, replay={"harness": "knob_demo_mcb"})
    r = vlib.run_harness(b["knob_demo_approx"], ["--file", f, "--ks", "2,3"])
    c.add_run(r, "approx-mcb-dimacs option matrix :: " + r["args"], None, replay={"harness": "knob_demo_approx"})
    c.traces_validated = c.transitions   # every trace is an execution of the real library on the real runtime
    c.extra["model_binding"] = "reference automaton 'last value wins' (1 variable) is compared with the real runtime's active_value after every transition"
    return c.finish()


def replay(path):
    rp = vlib.load_replay(path)
    b = builds()
    h = (rp.get("replay") or {}).get("harness", "knob_lib")
    f = os.path.join(vlib.BUILD, "k4.dimacs")
    open(f, "w").write(K4)
    p = subprocess.run([b[h], "--replay-case", rp["case"], "--file", f], stdout=subprocess.PIPE, stderr=subprocess.STDOUT, text=True)
    print(p.stdout[-3000:])
    if "REPLAY-VIOLATION" in p.stdout or p.returncode < 0:      # a replay that dies on a signal reproduces a crash
        print("VIOLATION property=C20 replay=%s" % path)
        return 1
    return 0
