from checks import _components
def run(tier): return _components.run("C12", tier)
def replay(path): return _components.replay("C12", path)
