// Real-stack conformance for the vmpi model. The SAME source is compiled twice:
//   (a) against real Boost.MPI and launched with mpiexec -n P            -> prints what the real stack does
//   (b) against the vmpi shim (-DCONF_VMPI) and run on P rank threads     -> prints the model's outcome set
// Part 1 (collective semantics): broadcast / scatter / reduce on known values; every value observed under (a) must be a
//   member of the set produced under (b).
// Part 2 (entry points): each parmcb MPI entry point on a small menu of graphs; rank 0 prints weight and cycle count;
//   under (a) these must equal the reference optimum, which is the only weight in the model's outcome set.
#include <boost/mpi/environment.hpp>
#include <boost/mpi/communicator.hpp>
#include <boost/mpi/collectives.hpp>
#include <boost/graph/adjacency_list.hpp>
#include <parmcb/config.hpp>
#include <parmcb/mpi/parmcb.hpp>
#include <cstdio>
#include <list>
#include <sstream>
#include <string>
#include <vector>

typedef boost::adjacency_list<boost::vecS, boost::vecS, boost::undirectedS, boost::no_property, boost::property<boost::edge_weight_t, double>> Graph;
typedef boost::graph_traits<Graph>::edge_descriptor Edge;

struct MinPair {   // declared commutative below although ties prefer the right operand - like parmcb's own operator
    const std::pair<int, int> &operator()(const std::pair<int, int> &a, const std::pair<int, int> &b) const { return a.first < b.first ? a : b; }
};
namespace boost { namespace mpi { template<> struct is_commutative<MinPair, std::pair<int, int>> : mpl::true_ {}; } }
namespace boost { namespace serialization { template<class Ar> void serialize(Ar &ar, std::pair<int, int> &p, const unsigned) { ar & p.first; ar & p.second; } } }

static void build(Graph &g, int which) {
    static const int K4[][3] = {{0,1,1},{0,2,1},{0,3,2},{1,2,2},{1,3,1},{2,3,1}};
    static const int HOUSE[][3] = {{0,1,1},{1,2,2},{2,3,1},{3,0,2},{0,2,3},{3,4,1},{2,4,1}};
    static const int TWO[][3] = {{0,1,1},{1,2,1},{2,0,1},{3,4,2},{4,5,2},{5,3,2},{5,6,1}};
    const int (*E)[3]; int m, n;
    if (which == 0) { E = K4; m = 6; n = 4; } else if (which == 1) { E = HOUSE; m = 7; n = 5; } else { E = TWO; m = 7; n = 8; }
    for (int i = 0; i < n; ++i) boost::add_vertex(g);
    for (int i = 0; i < m; ++i) boost::add_edge(E[i][0], E[i][1], (double) E[i][2], g);
}

static void program(boost::mpi::communicator &world, int part) {
    int r = world.rank(), P = world.size();
    if (part == 1) {
    std::vector<int> v; if (r == 0) v = {3, 1, 4, 1, 5};
    boost::mpi::broadcast(world, v, 0);
    { std::ostringstream os; os << "bcast rank=" << r << " :"; for (int x : v) os << " " << x; printf("%s\n", os.str().c_str()); }
    std::vector<std::vector<int>> parts; if (r == 0) for (int i = 0; i < P; ++i) parts.push_back(std::vector<int>(i + 1, 10 * i));
    std::vector<int> mine; boost::mpi::scatter(world, parts, mine, 0);
    { std::ostringstream os; os << "scatter rank=" << r << " :"; for (int x : mine) os << " " << x; printf("%s\n", os.str().c_str()); }
    std::pair<int, int> in(5 + (r == 0), r), out(-1, -1);     // all non-root ranks tie
    boost::mpi::reduce(world, in, out, MinPair(), 0);
    if (r == 0) printf("reduce root : %d %d\n", out.first, out.second);
    return;
    }
    // part 2
    for (int which = 0; which < 3; ++which) for (int var = 0; var < 5; ++var) {
        Graph g; build(g, which);
        std::list<std::list<Edge>> cycles; double wgt = 0;
        auto wm = boost::get(boost::edge_weight, g); auto o = std::back_inserter(cycles);
        switch (var) {
        case 0: wgt = parmcb::mcb_sva_signed_mpi(g, wm, o, world); break;
        case 1: wgt = parmcb::mcb_sva_fvs_trees_mpi(g, wm, o, world); break;
        case 2: wgt = parmcb::mcb_sva_fvs_trees_tbb_mpi(g, wm, o, world); break;
        case 3: wgt = parmcb::mcb_sva_iso_trees_mpi(g, wm, o, world); break;
        case 4: wgt = parmcb::mcb_sva_iso_trees_tbb_mpi(g, wm, o, world); break;
        }
        if (r == 0) printf("entry graph=%d variant=%d weight=%g cycles=%zu\n", which, var, wgt, cycles.size());
        else if (!cycles.empty()) printf("entry graph=%d variant=%d NONROOT-OUTPUT rank=%d\n", which, var, r);
    }
}

#ifdef CONF_VMPI
int main(int argc, char **argv) {
    int P = argc > 1 ? atoi(argv[1]) : 2;
    // enumerate every outcome of the model (reduce combination orders): DFS over OUTCOME choices, default TBB schedule
    vx::dfs([&]() {
        boost::mpi::vmpi::World w(P);
        printf("--- model execution\n");
        bool ok = boost::mpi::vmpi::run_ranks(w, [&](int) { boost::mpi::communicator c; program(c, 1); });
        if (!ok) printf("DEADLOCK %s\n", w.deadlock_desc.c_str());
        return true;
    }, 0, 100000);
    // part 2 once under the default choices (its graphs live on the heap, so it is not replayed)
    { boost::mpi::vmpi::World w(P); bool ok = boost::mpi::vmpi::run_ranks(w, [&](int) { boost::mpi::communicator c; program(c, 2); }); if (!ok) printf("DEADLOCK %s\n", w.deadlock_desc.c_str()); }
    return 0;
}
#else
int main(int argc, char **argv) {
    boost::mpi::environment env(argc, argv, boost::mpi::threading::multiple);
    boost::mpi::communicator world;
    program(world, 1);
    program(world, 2);
    return 0;
}
#endif
