// Binds the vtbb model to the installed oneTBB: runs the REAL tbb::parallel_reduce / parallel_for with bodies that
// record provenance expressions and checks that every recorded execution is a member of the model's grammar
// (DESIGN.md appendix A): leaves partition the range; an accumulation run starts from the identity and extends to
// the right over contiguous sub-ranges; joins are order preserving. The shape B(lo,hi,J(..)) (a body that keeps
// accumulating after a join) is recognised and reported as a model gap instead of being silently accepted.
#include <tbb/tbb.h>
#include <atomic>
#include <cstdio>
#include <cstdlib>
#include <memory>
#include <mutex>
#include <set>
#include <string>
#include <vector>

struct Node { char kind; long lo, hi; std::shared_ptr<Node> a, b; };   // 'I' identity, 'B' body(lo,hi,a), 'J' join(a,b)
typedef std::shared_ptr<Node> P;
static P mk(char k, long lo, long hi, P a, P b) { auto n = std::make_shared<Node>(); n->kind = k; n->lo = lo; n->hi = hi; n->a = a; n->b = b; return n; }
static std::string shape(const P &n) { if (n->kind == 'I') return "I"; if (n->kind == 'B') return "B(" + shape(n->a) + ")"; return "J(" + shape(n->a) + "," + shape(n->b) + ")"; }
static std::string full(const P &n) { if (n->kind == 'I') return "I"; if (n->kind == 'B') return "B(" + std::to_string(n->lo) + "," + std::to_string(n->hi) + "," + full(n->a) + ")"; return "J(" + full(n->a) + "," + full(n->b) + ")"; }

static bool gap = false;   // informational: a body that kept accumulating after a join was observed (part of the grammar since it was first seen)
// covered interval of an expression of the grammar, false if it is not a member
static bool e_cov(const P &n, long &lo, long &hi) {
    if (n->kind == 'B') {
        if (n->lo >= n->hi) return false;
        if (n->a->kind == 'I') { lo = n->lo; hi = n->hi; return true; }           // fresh instance
        if (n->a->kind == 'J') gap = true;
        long l0, h0; if (!e_cov(n->a, l0, h0) || h0 != n->lo) return false;        // continues a value for the adjacent prefix
        lo = l0; hi = n->hi; return true;
    }
    if (n->kind == 'J') { long l1, h1, l2, h2; if (!e_cov(n->a, l1, h1) || !e_cov(n->b, l2, h2) || h1 != l2) return false; lo = l1; hi = h2; return true; }
    return false;
}

static void spin(int k) { volatile double x = 1; for (int i = 0; i < k; ++i) x = x * 1.0000001 + 1e-9; }

int main(int argc, char **argv) {
    int maxN = argc > 1 ? atoi(argv[1]) : 64, maxT = argc > 2 ? atoi(argv[2]) : 16, reps = argc > 3 ? atoi(argv[3]) : 4;
    long traces = 0, bad = 0, for_traces = 0; std::set<std::string> shapes;
    std::string first_bad;
    for (int T = 1; T <= maxT; ++T) {
        tbb::global_control gc(tbb::global_control::max_allowed_parallelism, T);
        for (int N = 1; N <= maxN; ++N) for (int rep = 0; rep < reps; ++rep) {
            int work = (rep % 2) ? 20000 : 200;
            P id = mk('I', 0, 0, nullptr, nullptr);
            P res = tbb::parallel_reduce(tbb::blocked_range<std::size_t>(0, N), id,
                    [&](tbb::blocked_range<std::size_t> r, P x) { spin(work * (int) r.size()); return mk('B', (long) r.begin(), (long) r.end(), x, nullptr); },
                    [&](const P &x, const P &y) { return mk('J', 0, 0, x, y); });
            long lo, hi; ++traces; shapes.insert(shape(res));
            if (!e_cov(res, lo, hi) || lo != 0 || hi != N) { ++bad; if (first_bad.empty()) first_bad = full(res); }
            // parallel_for: every index exactly once, leaves are intervals
            std::vector<std::atomic<int>> hit(N); for (auto &h : hit) h = 0;
            std::mutex mu; std::vector<std::pair<long, long>> leaves;
            tbb::parallel_for(tbb::blocked_range<std::size_t>(0, N), [&](const tbb::blocked_range<std::size_t> &r) {
                spin(work); for (std::size_t i = r.begin(); i != r.end(); ++i) hit[i]++; std::lock_guard<std::mutex> g(mu); leaves.push_back({(long) r.begin(), (long) r.end()}); });
            ++for_traces;
            for (auto &h : hit) if (h != 1) { ++bad; if (first_bad.empty()) first_bad = "parallel_for index executed " + std::to_string((int) h) + " times"; break; }
        }
    }
    printf("{\"traces\":%ld,\"for_traces\":%ld,\"outside_grammar\":%ld,\"distinct_shapes\":%zu,\"model_gap_observed\":%s,\"first_bad\":\"%s\"}\n",
            traces, for_traces, bad, shapes.size(), gap ? "true" : "false", first_bad.c_str());
    return bad ? 1 : 0;
}
